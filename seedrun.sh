#!/bin/bash
# usage: seedrun.sh [seed ...]   applies each seeded change to /repo, runs the checks listed in its
# checks.txt (quick tier), and undoes it. Results: /verif/seeded/<seed>/detection.txt
cd /verif
seeds="$@"; [ -z "$seeds" ] && seeds=$(ls seeded)
for s in $seeds; do
  d=/verif/seeded/$s
  git -C /repo checkout -q -- . ; git -C /repo status --short | grep -v '^??' | head -1
  git -C /repo apply $d/patch.diff || { echo "$s: patch does not apply" | tee $d/detection.txt; continue; }
  : > $d/detection.txt
  for p in $(cat $d/checks.txt); do
    VERIF_EVIDENCE_DIR=/tmp/out/seedev ./check $p quick > /tmp/out/seedev.$s.$p.log 2>&1; rc=$?
    lab=$(grep -m3 "^  assertion" /tmp/out/seedev.$s.$p.log | sed 's/^  assertion \([^ ]*\) fails in \([^;]*\);.*/\1 (\2)/' | tr '\n' ';')
    echo "$p quick exit=$rc $lab" >> $d/detection.txt
  done
  git -C /repo checkout -q -- .
  echo "== $s"; cat $d/detection.txt
done
