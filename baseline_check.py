#!/usr/bin/env python3
"""Runs the repository's baseline test command in a directory and compares the set of passing
tests with /root/.vp/BASELINE.json stable_pass. usage: baseline_check.py <repo-dir>"""
import json, subprocess, sys, os
d = sys.argv[1] if len(sys.argv) > 1 else "/repo"
env = dict(os.environ, GOFLAGS="-mod=mod", GOPROXY="off", GOSUMDB="off", GOTOOLCHAIN="local")
p = subprocess.run("go test -mod=mod -json -vet=off -count=1 -timeout 25m ./...", shell=True, cwd=d, env=env, capture_output=True, text=True)
passed = set()
for line in p.stdout.splitlines():
    try:
        e = json.loads(line)
    except Exception:
        continue
    if e.get("Action") == "pass" and e.get("Test"):
        passed.add(e["Package"] + "::" + e["Test"])
base = set(json.load(open("/root/.vp/BASELINE.json"))["stable_pass"])
missing = sorted(base - passed)
extra = sorted(passed - base)
print("baseline", len(base), "passed now", len(passed), "missing", len(missing), "extra", len(extra))
for m in missing:
    print("  MISSING", m)
for m in extra[:20]:
    print("  extra", m)
sys.exit(1 if missing else 0)
