#!/bin/bash
# usage: SEEDS="a b" seedscratch.sh   evaluates seeds on scratch worktrees of /repo (does not touch its working tree)
for s in $SEEDS; do
  d=/verif/seeded/$s; w=/tmp/w3-$s
  git -C /repo worktree remove --force $w 2>/dev/null
  git -C /repo worktree add -q --detach $w HEAD && (cd $w && git apply $d/patch.diff) || { echo "$s: apply failed"; continue; }
  : > $d/detection.txt
  for p in $(cat $d/checks.txt); do
    VERIF_REPO=$w VERIF_EVIDENCE_DIR=/tmp/out/mut /verif/check $p quick > /tmp/out/mut/$s.$p.log 2>&1; rc=$?
    lab=$(grep -m3 "^  assertion" /tmp/out/mut/$s.$p.log | sed 's/^  assertion \([^ ]*\) fails in \([^;]*\);.*/\1 (\2)/' | tr '\n' ';')
    echo "$p quick exit=$rc $lab" >> $d/detection.txt
  done
  git -C /repo worktree remove --force $w || { rm -rf $w; git -C /repo worktree prune; }
  echo "== $s"; cat $d/detection.txt
done
echo WAVEDONE
