#!/bin/sh
# usage: runchecks.sh <tier> <id>...   (development helper: logs under /tmp/out)
tier=$1; shift
mkdir -p /tmp/out
for p in "$@"; do
  /verif/check $p $tier > /tmp/out/$p.$tier.log 2>&1
  echo "$p $tier exit $? $(date +%H:%M:%S)" >> /tmp/out/summary.txt
done
echo "DONE $tier $* $(date +%H:%M:%S)" >> /tmp/out/summary.txt
