#!/usr/bin/env python3
"""Regenerates /verif/MANIFEST.json. Only properties listed in CLAIMED get a check entry;
everything else must appear in NOT_APPLICABLE with a reason."""
import json, sys

LEVEL = ("bounded symbolic execution of the real code: the functions named in the evidence are executed from go/ssa built from "
         "/repo's working tree on every run, inputs / map-iteration orders / random picks / failure placements are symbolic or "
         "exhaustively forked, every assertion is decided by an SMT solver (z3, cross-checked on cvc5) for all values within the "
         "stated bounds; a sat answer is replayed against the natively compiled code before it is reported, and sampled paths are "
         "co-simulated against the native build on every run. ")

CLAIMED = {
 "C01": ("5/C01", "bounded, not a proof: phase lemmas with S<=2 shards / K<=2 hashes (thorough: gcTargets and assignment at S=3, relief and scale-down at (2,2)), whole cycles at (1,1),(2,0),(2,1); the deeper whole-cycle sizes of the plan did not finish in 10 min and are not claimed (DESIGN 9.8); trusted base = stubs for logging, metrics, errgroup (synchronous), weightedrand (any positive-weight choice), the Shard.APIGet/APIPost transport model, report well-formedness (guaranteed by C10/C14)",
         "unit of assurance is one coordination cycle of one replica; coverage and justified-removal are asserted on the observable POST bodies vs GET answers, crash-freedom on every path"),
 "C03": ("5/C03 and 9", "two layers: (1) closed loop of the real coordinator with 2 (thorough 3) real sidecar bookkeepers and ONE target of concrete size over 5 (6) cycles from every initial placement - convergence and a following no-op cycle - plus, thorough, one K=2 spread scenario; (2) single-cycle clauses (scale-up, at-most-once normal-state placement, placement-when-room for K=1, no-op from a converged state) with symbolic loads at (1,1),(2,0) and the assignment lemma at S<=2 (3). Closed loops with symbolic sizes, later growth and targets added/removed during the run are NOT covered",
         "bounded convergence for one target plus per-cycle capacity clauses"),
 "C04": ("5/C04", "bounded: one lemma per placement site with S<=2, K<=2 (process relief only at K=2: without a head limit, thorough also under an unreached head limit; assignment thorough at (3,2)) and whole cycles at (1,1); seriesWithRate is an uninterpreted summary whose bounds are proved in floating-point theory in the same run; integer division in tryScaleUp is abstracted and counterexamples are confirmed with exact arithmetic",
         "placements are weighed with the series reported in the cycle, against the load the destination reported"),
 "C05": ("5/C05", "bounded as C01; clause (i) same-cycle marking, clause (ii) hand-over threshold (3, from README) on gcTargets and whole cycles at (1,1),(2,1) (thorough: the fully symbolic (2,1) cycle with relief); clause (iii) counter restart is decided in C10's harness; their composition over several cycles is argued, not executed",
         "per-cycle clauses of the hand-over protocol"),
 "C06": ("5/C06 and 9", "two layers: (1) the closed loop of C03 (K=1) with ONE injected fault (lost target POST, shard not ready for a cycle, sidecar restarted from its store) at cycle 0 or 1 on any shard, then fault-free cycles: converged within 6 (7) cycles; thorough also TWO faults (S=2 within 7, S=3 within 8 cycles); (2) single-cycle progress obligations for every fault-produced state (lone in_transfer copy, duplicates in every state/load/counter combination). More than two faults, K>=2 in the faulty loop are NOT covered",
         "bounded recovery for one target and one fault plus per-cycle progress lemmas"),
 "C07": ("5/C07", "bounded: every ChangeScale argument of whole cycles at (1,1),(2,0),(2,1) plus the tryScaleDown lemma at (2,1),(3,1) (thorough (2,2)); symbolic idle instants against a symbolic, monotone clock; idle instants within 1 s of the expiry boundary are excluded so that native replay is deterministic; S>=3 whole cycles did not finish in 10 min and are not claimed",
         "all scale requests of the cycle, not only the last"),
 "C08": ("5/C08", "bounded: complete per-shard request log under the full seven-step health script at (1,1),(2,0), the whole cycle (2,1) over every shard kind; destination-is-in-sync lemmas with S<=3",
         "request logs against scripted health"),
 "C09": ("5/C09", "IN PART: crash-atomicity of the store protocol over an abstract store (whole document / proper prefix / absent, symbolic document lengths ordered by content weight; ioutil.WriteFile, os.OpenFile+Write+Sync+Close with or without O_TRUNC, os.Rename atomic); five store faults incl. 'killed one byte before the end'; byte-level JSON fidelity is the store contract, exercised only by native co-simulation; K<=1 hashes in the store-crash harness, K<=2 in the restart harness, two consecutive restarts",
         "protocol-level, structural"),
 "C10": ("5/C10", "one inductive step from an arbitrary state satisfying the representation invariant over K<=2 (3) hashes and 2 jobs: covers update sequences of any length within that universe provided the invariant is right (it is re-established by every step and by Load); interleaving with concurrent scrapes is outside",
         "inductive, sequential"),
 "C12": ("5/C12", "IN PART: the tee kernel (wrappedReader.Read) for arbitrary bytes, n<=3 (4), 2 writers with short writes and failures; whole responses through Proxy.ServeHTTP on a fixed 51-byte payload with symbolic chunking; VictoriaMetrics' ParseStream and gzip are contract models validated by co-simulation against the real library (identity encoding)",
         "kernel for arbitrary bytes + wiring on a fixed payload"),
 "C13": ("5/C13", "bounded: every failure stage and break-off offset (0, 13, 30, 51 of 51 bytes; reset or time-out) before and after the response was committed, Prometheus-side failures, stopped scraping, routing failures; net/http.ResponseWriter and ParseStream are contract models, the latter validated by co-simulation against the real library on every run",
         "one request through the real ServeHTTP / scraper / tee / status code"),
 "C14": ("5/C14", "bounded: StatisticSeries over <=3 (4) rows, window arithmetic in exact floating-point theory for values < 2^20 (2^32), runtimeInfo sums over <=2 (3) targets, composition through ServeHTTP on the fixed payload; relabel.Process is a keep/drop contract model",
         "accounting kernels + composition"),
 "C15": ("5/C15", "IN PART: the hash term is a function of the final label sequence and URL only (two discoveries differing in label placement, meta labels and iteration order give equal hashes and equal shipped labels), equal entries collapse, and every surviving label reaches the hash input (sensitivity: targets differing in one surviving label - ordinary or reserved non-meta non-URL - CAN get different hashes; satisfiability with xxhash / FNV uninterpreted); collision-freeness as such and cross-process stability are outside",
         "function-of-final-labels, order independence, dedupe, sensitivity"),
 "C17": ("5/C17", "sequential histories (first round + one step over 2 jobs, <=1 target per group; targetsFromGroup summarised) AND a bounded thread model: the real TargetsDiscovery.Run loop, a reload and a reader under every schedule with context switches at synchronisation operations, <=2 preemptions (thorough 4), one or two discovery rounds in flight; schedules are enumerated as forks of the executor (no SMT query is involved in this part: the data is concrete), counterexamples are confirmed by concrete re-execution of the SSA, not natively; data races as such (the unlocked read of m.config) and weak memory are outside",
         "sequential snapshot / tracking semantics + schedule exploration of the Run loop"),
 "C18": ("5/C18", "bounded: replica counts in [0,6], <=2 claim templates, <=3 pods in every order; client-go replaced by recording fakes",
         "calls made to the Kubernetes API, not the API server's behaviour"),
 "C19": ("5/C19", "bounded self-composition with K=1: one cycle over [A,B] vs [B] (B one shard, A one shard, quick with concrete loads for A) and two consecutive cycles of one coordinator and explorer over [A,B] vs [A] (found C19-F1, fixed); clock frozen; influence over more than two cycles is outside",
         "two-run equivalence of the requests a replica's shards receive"),
 "C20": ("5/C20", "sequential kernel (Get / exploreOnce / table updates, estimate through the real UpdateScrapeResult), the first-assignment clause on two real coordination cycles, AND a bounded thread model: the real Explore.Run with 1 (thorough 2) workers, its retry goroutines and a driver (lookups + one concurrent update / reload) under every schedule with <=2 preemptions, <=1 (2) failing probes, K<=2 (3) targets, optionally a work queue shrunk to 1 slot; at quiescence every asked-for target has its estimate, no probe after success, one probe in flight, retry not before the interval (clock symbolic, decided by the solver); schedules are forks of the executor, counterexamples confirmed by concrete re-execution, not natively; data races and real timing are outside",
         "sequential kernel + first-assignment clause + schedule exploration of Run"),
}

NOT_APPLICABLE = {
 "C02": "Equivalence is against the vendored Prometheus library on arbitrary relabel programs and label shapes; the code path is YAML marshalling/loading, Go regexp, net/url and ~10^5 lines of string processing - no bounded SSA->SMT encoding of it is within reach, and stubbing those libraries would assume the property.",
 "C11": "The substance is yaml.Marshal/config.Load round-tripping of the Prometheus config types and textual <secret> replacement in the marshalled text; deciding it needs the YAML encoder/decoder and reflection over config structs, which cannot be encoded.",
 "C16": "The hash is hashstructure.Hash - a reflect walk over the parsed config after config.Load; reflection and YAML parsing are outside what the encoder can execute symbolically.",
}

def main():
    checks = []
    for pid in sorted(CLAIMED):
        ref, note, what = CLAIMED[pid]
        checks.append({
            "property_id": pid,
            "quick_cmd": f"./check {pid} quick",
            "thorough_cmd": f"./check {pid} thorough",
            "evidence_file": f"/verif/evidence/{pid}.json",
            "replay_cmd_template": f"./check {pid} --replay {{path}}",
            "engine": "symgo",
            "level_claimed": {"category": "model_checking", "text": LEVEL + "For this property: " + what + ".", "design_ref": "DESIGN.md section " + ref},
            "level_note": note,
            "technique": "bounded symbolic execution of go/ssa with SMT (z3 / cvc5) - solver-based checking of the real code",
        })
    m = {
        "version": 1,
        "setup_cmd": "cd /verif/engine && GOFLAGS=-mod=mod GOPROXY=off GOSUMDB=off GOTOOLCHAIN=local go build -o /verif/bin/symgo .",
        "hooks": {
            "guard": "verif",
            "enable": "harness files (build tag verif) are injected by overlay: go/packages Overlay for the symbolic executor, `go test -tags verif -overlay` for native replay and co-simulation; there are no source changes in /repo for hooks",
            "baseline_off_cmd": "cd /repo && go test -mod=mod -json -vet=off -count=1 -timeout 25m ./...",
            "source_commits": [],
            "add_only": True,
        },
        "engines": [{"name": "symgo", "path": "/verif/engine", "serves_properties": sorted(CLAIMED),
                     "kind_free_text": "bounded symbolic executor for go/ssa (golang.org/x/tools v0.29.0) emitting SMT-LIB2; z3 4.8.12 incremental with one-shot fallbacks (cvc5 1.0 --solve-bv-as-int=sum, z3 5.1.0, cvc5 for floating point), cvc5 cross-check; native replay and co-simulation through go test -overlay"}],
        "checks": checks,
        "not_applicable": [{"property_id": k, "reason": v} for k, v in sorted(NOT_APPLICABLE.items()) if k not in CLAIMED],
        "notes": "exit codes of ./check: 0 = every obligation decided unsat within the bounds (known findings, if any, are printed as KNOWN-FINDING lines), 1 = a natively reproduced violation (VIOLATION line), 2 = inconclusive (time-out, solver unknown/error/disagreement, unsupported construct, unwinding bound, vacuity, co-simulation mismatch, spurious counterexample). Known findings: /verif/known_findings.json.",
    }
    json.dump(m, open("/verif/MANIFEST.json", "w"), indent=1)
    print("wrote MANIFEST.json with", len(checks), "checks")

if __name__ == "__main__":
    main()
