#!/bin/sh
# usage: mutcheck.sh <scratch-repo-dir> <id>...   runs quick checks against a scratch tree
dir=$1; shift
mkdir -p /tmp/out/mut
for p in "$@"; do
  VERIF_REPO=$dir VERIF_EVIDENCE_DIR=/tmp/out/mut /verif/check $p quick > /tmp/out/mut/$(basename $dir).$p.log 2>&1
  echo "$(basename $dir) $p exit $?"
done
