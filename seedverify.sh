#!/bin/bash
# usage: seedverify.sh <agent-worktree> <seed-name> <demo command run inside the scratch tree ('DIR' is replaced by its path)>
# Confirms independently, in a fresh scratch worktree of /repo: the demo passes without the patch,
# fails with it, and the baseline test set is unchanged with it. Then stores the seed.
src=$1; name=$2; shift 2; demo="$*"
export GOFLAGS=-mod=mod GOPROXY=off GOSUMDB=off GOTOOLCHAIN=local
sv=/tmp/sv-$name
git -C /repo worktree remove --force $sv 2>/dev/null
git -C /repo worktree add -q --detach $sv HEAD || exit 2
# copy the agent's untracked demo files (not the patch's targets)
(cd $src && git ls-files --others --exclude-standard | grep -v '^\.' | grep -v 'patch.diff\|\.txt$' ) | while read f; do mkdir -p $sv/$(dirname $f); cp $src/$f $sv/$f; done
cp $src/patch.diff $sv/patch.diff
cmd=$(echo "$demo" | sed "s#DIR#$sv#g; s#$src#$sv#g")
# the agents' overlay files mention their own worktree path
for f in $sv/*.json; do [ -f "$f" ] && sed -i "s#$src#$sv#g" $f; done
echo "== demo WITHOUT patch"; (cd $sv && eval "$cmd" > $sv/.demo0.log 2>&1); r0=$?; tail -3 $sv/.demo0.log
(cd $sv && git apply patch.diff) || { echo "PATCH DOES NOT APPLY"; exit 2; }
echo "== demo WITH patch"; (cd $sv && eval "$cmd" > $sv/.demo1.log 2>&1); r1=$?; tail -3 $sv/.demo1.log
echo "== baseline with patch"; mkdir -p /tmp/svdemo-$name; (cd $sv && git ls-files --others --exclude-standard | grep '_test.go$' | while read f; do mkdir -p /tmp/svdemo-$name/$(dirname $f); mv $f /tmp/svdemo-$name/$f; done)
python3 /verif/baseline_check.py $sv; rb=$?
echo "RESULT $name: demo-without=$r0 (want 0) demo-with=$r1 (want !=0) baseline=$rb (want 0)"
if [ $r0 -eq 0 ] && [ $r1 -ne 0 ] && [ $rb -eq 0 ]; then
  d=/verif/seeded/$name; mkdir -p $d
  cp $src/patch.diff $d/patch.diff
  cp $src/DEMO.md $d/DEMO.md 2>/dev/null
  (cd $src && git ls-files --others --exclude-standard | grep -v '^\.' | grep -v 'patch.diff\|DEMO.md\|\.txt$') | while read f; do mkdir -p $d/demo/$(dirname $f); cp $src/$f $d/demo/$f; done
  echo "$demo" > $d/demo_cmd.txt
  echo "STORED $d"
fi
git -C /repo worktree remove --force $sv; rm -rf /tmp/svdemo-$name
