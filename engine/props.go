package main

import (
	"fmt"
	"sort"
	"strconv"
	"strings"
)

type CosimCase struct {
	Harness string                 `json:"harness"`
	Inputs  map[string]interface{} `json:"inputs"`
	Expect  [][]string             `json:"expect"` // admissible traces
}

func (w *Worker) crossCheck(pc *PC, extra []*Term, want string) string {
	if !w.cfg.XCheck {
		return ""
	}
	// every sat verdict is cross-checked; unsat verdicts are sampled (the first xcheckSample per
	// worker), since they are the overwhelming majority and each costs a second solver run
	if want == "unsat" {
		if w.nXUnsat >= xcheckSample {
			return "not sampled"
		}
		w.nXUnsat++
	}
	if w.xsol == nil {
		w.xsol = NewSolver(CVC5, w.tc, w.cfg.TimeoutMs)
	}
	w.st.XQueries++
	r := w.xsol.CheckPC(pc, extra...)
	out := "cvc5:" + r
	if w.cfg.XCheck2 {
		if w.xsol2 == nil {
			w.xsol2 = NewSolver(Z3New, w.tc, w.cfg.TimeoutMs)
		}
		w.st.XQueries++
		r2 := w.xsol2.CheckPC(pc, extra...)
		out += " z3new:" + r2
		if r2 != want && r2 != "unknown" {
			return "DISAGREE " + out
		}
	}
	if r != want && r != "unknown" {
		return "DISAGREE " + out
	}
	if r == "unknown" {
		w.st.XUnknown++
	}
	return out
}

// model extracts values of the named inputs of this path after a sat answer of w.sol.
func (w *Worker) model(s *State) (map[string]interface{}, error) {
	var vals map[int]string
	var err error
	if w.oneShotVals != nil {
		vals = w.oneShotVals
	} else {
		vals, err = w.sol.Values(s.inputs)
		if err != nil {
			return nil, err
		}
	}
	out := map[string]interface{}{}
	for _, c := range s.choices {
		if c.Kind == "choose" {
			out["choose."+c.Name] = c.Pick
		}
	}
	for _, in := range s.inputs {
		raw, ok := vals[in.ID]
		if !ok {
			continue // unconstrained: native default (zero) is fine
		}
		switch in.Sort.K {
		case SBool:
			out[in.S] = raw == "true"
		case SBV:
			u, ok := parseBVValue(raw)
			if !ok {
				return nil, fmt.Errorf("cannot parse model value %q for %s", raw, in.S)
			}
			// stored as decimal string of the signed 64-bit reading to survive JSON
			out[in.S] = strconv.FormatInt(signExt(u, in.Sort.W), 10)
		case SStr:
			id, err := strconv.Atoi(strings.TrimSpace(strings.Trim(strings.ReplaceAll(raw, " ", ""), "()")))
			if err != nil {
				return nil, fmt.Errorf("cannot parse string-atom value %q", raw)
			}
			if id >= 0 && id < len(w.tc.strs) {
				out[in.S] = w.tc.strs[id]
			} else {
				out[in.S] = fmt.Sprintf("\x00atom%d", id)
			}
		}
	}
	return out, nil
}

// preferQuietClock re-solves a satisfiable property query with every clock step forced to zero,
// so that the witness does not depend on time passing inside the cycle (a native replay cannot
// make the wall clock jump). Falls back to the unconstrained model.
func (w *Worker) preferQuietClock(s *State, extra []*Term) {
	var quiet []*Term
	for _, in := range s.inputs {
		if strings.HasPrefix(in.S, "clock.step") {
			quiet = append(quiet, w.tc.Eq(in, w.tc.BV(64, 0)))
		}
	}
	if len(quiet) == 0 || extra == nil {
		return
	}
	w.oneShotVals = nil
	if w.propCheck(s, append(append([]*Term(nil), extra...), quiet...)) == "sat" {
		return
	}
	w.oneShotVals = nil
	w.propCheck(s, extra) // restore a model of the original query
}

func (w *Worker) recordViolation(s *State, label, finding string, xc string, extra []*Term) {
	w.preferQuietClock(s, extra)
	m, err := w.model(s)
	if err != nil {
		w.st.Inconclusive = append(w.st.Inconclusive, "model extraction failed for "+label+": "+err.Error())
		return
	}
	v := Violation{Label: label, Harness: w.cfg.Harness, Inputs: m, Choices: append([]choiceRec(nil), s.choices...), Finding: finding,
		PathLen: s.pc.lits2len(), CrossChk: xc}
	if finding != "" {
		if _, ok := w.st.Known[finding+"|"+label]; !ok {
			w.st.Known[finding+"|"+label] = &v
		}
		return
	}
	if len(w.st.Violations) < w.cfg.MaxViol {
		w.st.Violations = append(w.st.Violations, v)
	}
}

func (p *PC) lits2len() int {
	if p == nil {
		return 0
	}
	return p.n
}

func (w *Worker) doAssert(s *State, label string, cond *Term) {
	// a check evaluates the assertions of its own property only: a failing assertion of another
	// property must not end the path before this property's assertions are reached
	if len(w.cfg.AssertPrefixes) > 0 && !matchesPrefix(label, w.cfg.AssertPrefixes) {
		s.pending = nil
		return
	}
	pend := s.pending
	s.pending = nil
	if len(s.forced) > 0 { // replaying a shipped trail: this assertion was decided by the exporting worker
		if !cond.Const {
			s.pc = s.pc.push(cond)
		}
		return
	}
	w.st.AssertLabels[label]++
	if cond.IsTrue() {
		w.st.TrivialAsserts++
		return
	}
	w.st.NontrivialAsserts++
	tc := w.tc
	ncond := tc.Not(cond)
	var knownPreds []*Term
	for _, p := range pend {
		if w.cfg.KnownIDs[p.id] {
			knownPreds = append(knownPreds, p.pred)
		}
	}
	viol := tc.And(ncond, tc.Not(tc.Or(knownPreds...)))
	key := fmt.Sprintf("%s|%d|%d", label, viol.ID, pcID(s.pc))
	w.st.PropQueryKeys[key] = true
	extra := []*Term{viol}
	w.st.PropQueries++
	w.oneShotVals = nil
	r := w.propCheck(s, extra)
	switch r {
	case "sat":
		if s.abst != nil {
			// abstract, then confirm: re-ask with the exact definitions of every summary on this path
			ex := append([]*Term(nil), extra...)
			for a := s.abst; a != nil; a = a.prev {
				ex = append(ex, tc.Eq(a.uf, a.exact))
			}
			w.st.PropQueries++
			r2 := w.propCheck(s, ex)
			if r2 == "unsat" {
				w.st.Inconclusive = append(w.st.Inconclusive, "abstraction too coarse for "+label+": counterexample exists only under the uninterpreted summaries")
				break
			}
			if r2 != "sat" {
				w.st.Inconclusive = append(w.st.Inconclusive, fmt.Sprintf("confirmation of %s with exact arithmetic: %s", label, r2))
				break
			}
			extra = ex
		}
		xc := w.crossCheck(s.pc, extra, "sat")
		if strings.HasPrefix(xc, "DISAGREE") {
			w.st.Inconclusive = append(w.st.Inconclusive, "solver disagreement on "+label+": "+xc)
		} else {
			// re-establish the model on the primary solver (cross-check does not disturb it, but
			// Values must follow a sat answer of w.sol)
			w.recordViolation(s, label, "", xc, extra)
		}
	case "unsat":
		xc := w.crossCheck(s.pc, extra, "unsat")
		if strings.HasPrefix(xc, "DISAGREE") {
			w.st.Inconclusive = append(w.st.Inconclusive, "solver disagreement on "+label+": "+xc)
		}
		w.st.AssertUnsat[label]++
		if len(w.st.Samples) < 6 {
			w.st.Samples = append(w.st.Samples, map[string]interface{}{
				"obligation": label, "harness": w.cfg.Harness, "verdict": "unsat", "path_literals": s.pc.lits2len(),
				"negated_assertion": trunc(tc.Show(viol), 300), "cross_check": xc,
				"choices": fmt.Sprint(summarizeChoices(s.choices)),
			})
		}
	default:
		w.st.Inconclusive = append(w.st.Inconclusive, fmt.Sprintf("property query %s: %s %s", label, r, trunc(lastSolverError, 200)))
	}
	for _, p := range pend {
		if !w.cfg.KnownIDs[p.id] {
			continue
		}
		if _, have := w.st.Known[p.id+"|"+label]; have {
			continue // one replayable witness per (finding, assertion) and worker is enough
		}
		l2 := []*Term{ncond, p.pred}
		w.st.PropQueries++
		w.oneShotVals = nil
		if w.propCheck(s, l2) != "sat" {
			continue // no witness even under the (over-approximating) summaries
		}
		if s.abst != nil {
			for a := s.abst; a != nil; a = a.prev {
				l2 = append(l2, tc.Eq(a.uf, a.exact))
			}
			w.st.PropQueries++
			w.oneShotVals = nil
		}
		if s.abst == nil || w.propCheck(s, l2) == "sat" {
			w.recordViolation(s, label, p.id, "", l2)
		}
	}
	// continue under the assumption that the assertion held (if the violation query was unsat the
	// path condition already implies it and stays feasible)
	if (r != "unsat" || len(knownPreds) > 0) && w.check(s.pc, cond) == "unsat" {
		// the assertion cannot hold on this path (a certain violation, reported above): the path
		// ends here, but the situations it reached still count as reached
		for c := range s.covers {
			w.st.Covers[c]++
		}
		panic(pathDead{})
	}
	s.pc = s.pc.push(cond)
}

func pcID(p *PC) int {
	h := 17
	for q := p; q != nil; q = q.parent {
		h = h*31 + q.lit.ID
	}
	return h
}

func trunc(s string, n int) string {
	if len(s) > n {
		return s[:n] + "…"
	}
	return s
}

func summarizeChoices(cs []choiceRec) []string {
	var out []string
	for _, c := range cs {
		if c.Of > 1 {
			out = append(out, fmt.Sprintf("%s:%s=%d/%d", c.Kind, c.Name, c.Pick, c.Of))
		}
	}
	if len(out) > 24 {
		out = append(out[:24], "…")
	}
	return out
}

func (w *Worker) finishPath(s *State) {
	for c := range s.covers {
		w.st.Covers[c]++
	}
	if s.status == "crashed" {
		w.st.Covers["toplevel-crash"]++
		// a crash that escapes every Crashed() boundary is reported as an assertion failure
		w.st.AssertLabels["no-uncaught-crash"]++
		m, err := w.model2(s)
		if err == nil && len(w.st.Violations) < w.cfg.MaxViol {
			w.st.Violations = append(w.st.Violations, Violation{Label: "no-uncaught-crash", Harness: w.cfg.Harness, Inputs: m,
				Choices: s.choices, Detail: s.why, PathLen: s.pc.lits2len()})
		}
		return
	}
	if w.cfg.concrete != nil {
		w.traces = append(w.traces, w.trace(s))
		return
	}
	// co-simulation sample
	if w.cfg.Cosim > 0 && len(w.st.CosimCases) < w.cfg.Cosim && s.obs != nil {
		w.seq++
		// only paths that are feasible with a quiet clock (all steps zero) are sampled: a native
		// run cannot make the wall clock jump
		var quiet []*Term
		for _, in := range s.inputs {
			if strings.HasPrefix(in.S, "clock.step") {
				quiet = append(quiet, w.tc.Eq(in, w.tc.BV(64, 0)))
			}
		}
		w.oneShotVals = nil
		if w.sol.CheckPC(s.pc, quiet...) == "sat" {
			if m, err := w.model(s); err == nil {
				w.st.CosimCases = append(w.st.CosimCases, CosimCase{Harness: w.cfg.Harness, Inputs: m})
			}
		}
	}
}

// model2 asks the solver for a model of the path condition itself.
func (w *Worker) model2(s *State) (map[string]interface{}, error) {
	w.oneShotVals = nil
	r := w.sol.CheckPC(s.pc)
	if r != "sat" {
		return nil, fmt.Errorf("path condition not sat: %s", r)
	}
	return w.model(s)
}

// trace renders the observation list of a state whose observations are all concrete.
func (w *Worker) trace(s *State) []string {
	var recs []*obsRec
	for o := s.obs; o != nil; o = o.prev {
		recs = append(recs, o)
	}
	out := make([]string, 0, len(recs))
	for i := len(recs) - 1; i >= 0; i-- {
		o := recs[i]
		var sb strings.Builder
		sb.WriteString(o.label)
		for _, v := range o.vals {
			sb.WriteByte(' ')
			switch x := v.(type) {
			case obsTerm:
				t := x.t
				if !t.Const {
					sb.WriteString("?sym")
					continue
				}
				switch t.Sort.K {
				case SBool:
					sb.WriteString(strconv.FormatBool(t.U == 1))
				case SBV:
					if x.signed {
						sb.WriteString(strconv.FormatInt(signExt(t.U, t.Sort.W), 10))
					} else {
						sb.WriteString(strconv.FormatUint(t.U, 10))
					}
				case SStr:
					sb.WriteString(strconv.Quote(t.S))
				case SFP:
					sb.WriteString(strconv.FormatFloat(t.F, 'g', -1, 64))
				}
			case *Term:
				sb.WriteString(x.S)
			}
		}
		out = append(out, sb.String())
	}
	return out
}

func sortedKeys(m map[string]int) []string {
	var ks []string
	for k := range m {
		ks = append(ks, k)
	}
	sort.Strings(ks)
	return ks
}

// propCheck decides a property query: incremental solver first, one-shot process if that says
// unknown.
func (w *Worker) propCheck(s *State, extra []*Term) string {
	lits := append(s.pc.lits(), extra...)
	for _, l := range lits {
		if l.HasFP { // floating point: the incremental core does not finish; go straight to one-shot
			w.st.OneShot++
			r2, vals := w.sol.OneShotKind(CVC5, lits, s.inputs, w.cfg.TimeoutMs)
			if r2 != "sat" && r2 != "unsat" {
				r2, vals = w.sol.OneShotKind(Z3, lits, s.inputs, w.cfg.TimeoutMs*3)
			}
			if r2 == "sat" {
				w.oneShotVals = vals
			}
			return r2
		}
	}
	r := "unknown"
	if w.hardStreak < 3 {
		r = w.sol.CheckPC(s.pc, extra...)
		if r == "unknown" {
			w.hardStreak += 2
		} else if w.hardStreak > 0 {
			w.hardStreak--
		}
	} else {
		w.hardTick++
		if w.hardTick%16 == 0 {
			w.hardStreak = 0
		}
	}
	if r == "unknown" {
		w.st.OneShot++
		r2, vals := w.sol.OneShotKind(CVC5Int, lits, s.inputs, w.cfg.TimeoutMs)
		if r2 == "unknown" {
			r2, vals = w.sol.OneShotKind(Z3New, lits, s.inputs, w.cfg.TimeoutMs)
		}
		if r2 == "sat" {
			w.oneShotVals = vals
		}
		return r2
	}
	return r
}

const xcheckSample = 40
