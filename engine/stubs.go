package main

import (
	"regexp"
	"fmt"
	"go/types"
	"strconv"
	"strings"

	"golang.org/x/tools/go/ssa"
)

var intrinsics map[string]stubFn
var stubs map[string]stubFn

func (w *Worker) input(s *State, name string, srt Sort) *Term {
	if w.cfg.concrete != nil {
		return w.concreteInput(name, srt)
	}
	t := w.tc.Var(name, srt)
	if !s.inputSet[t.ID] {
		s.inputSet[t.ID] = true
		s.inputs = append(s.inputs, t)
	}
	return t
}

func (w *Worker) concreteInput(name string, srt Sort) *Term {
	v, ok := w.cfg.concrete[name]
	switch srt.K {
	case SBool:
		b, _ := v.(bool)
		return w.tc.Bool(ok && b)
	case SBV:
		switch x := v.(type) {
		case float64:
			return w.tc.BV(srt.W, uint64(int64(x)))
		case int64:
			return w.tc.BV(srt.W, uint64(x))
		case uint64:
			return w.tc.BV(srt.W, x)
		case string: // big values are stored as decimal strings
			if u, err := strconv.ParseUint(x, 10, 64); err == nil {
				return w.tc.BV(srt.W, u)
			}
			i, _ := strconv.ParseInt(x, 10, 64)
			return w.tc.BV(srt.W, uint64(i))
		}
		return w.tc.BV(srt.W, 0)
	case SStr:
		x, _ := v.(string)
		return w.tc.Str(x)
	case SFP:
		x, _ := v.(float64)
		return w.tc.FP(x)
	}
	panic("concreteInput")
}

func timeValue(w *Worker, ns *Term) Value {
	return &StructV{F: []Value{w.tc.BV(64, 0), ns, Ptr{}}}
}

func timeNs(v Value) *Term { return v.(*StructV).F[1].(*Term) }

// now models time.Now(): the first reading is an arbitrary instant in [0, 2^60); every later one
// is the previous reading plus an arbitrary non-negative step of at most 2^50 ns (~13 days), so
// that differences of instants normalise syntactically to sums of steps.
// sleep advances the clock by at least d (and at most the usual step bound).
func (w *Worker) sleep(s *State, d *Term) {
	tc := w.tc
	if s.clock == nil {
		w.now(s)
	}
	if s.ghost != nil {
		if _, frozen := s.ghost["clockfrozen"]; frozen {
			return
		}
	}
	s.nclock++
	st := w.input(s, "clock.sleep"+strconv.Itoa(s.nclock), bv(64))
	c := tc.And(tc.Cmp("bvsle", d, st), tc.Cmp("bvsle", tc.BV(64, 0), st), tc.Cmp("bvsle", st, tc.BV(64, 1<<50)))
	if c.IsFalse() {
		panic(pathDead{})
	}
	if !c.IsTrue() {
		s.pc = s.pc.push(c)
	}
	s.clock = tc.Add(s.clock, st)
}

func (w *Worker) now(s *State) *Term {
	s.nclock++
	tc := w.tc
	if s.clock != nil && s.ghost != nil {
		if _, frozen := s.ghost["clockfrozen"]; frozen {
			return s.clock
		}
	}
	if s.clock == nil {
		t := w.input(s, "clock.0", bv(64))
		c := tc.And(tc.Cmp("bvsle", tc.BV(64, 0), t), tc.Cmp("bvslt", t, tc.BV(64, 1<<60)))
		if c.IsFalse() {
			panic(pathDead{})
		}
		if !c.IsTrue() {
			s.pc = s.pc.push(c)
		}
		s.clock = t
		return t
	}
	d := w.input(s, "clock.step"+strconv.Itoa(s.nclock), bv(64))
	c := tc.And(tc.Cmp("bvsle", tc.BV(64, 0), d), tc.Cmp("bvsle", d, tc.BV(64, 1<<50)))
	if c.IsFalse() {
		panic(pathDead{})
	}
	if !c.IsTrue() {
		s.pc = s.pc.push(c)
	}
	s.clock = tc.Add(s.clock, d)
	return s.clock
}

func sliceElems(v Value) []Value {
	sl := v.(SliceV)
	out := make([]Value, sl.Len)
	for i := range out {
		out[i] = sl.O.Val.(*ArrayV).E[sl.Off+i]
	}
	return out
}

// fmtArgs tries to turn values into concrete Go values for real fmt formatting.
func (w *Worker) fmtConcrete(vals []Value) ([]interface{}, bool) {
	out := make([]interface{}, len(vals))
	for i, v := range vals {
		iv, ok := v.(IfaceV)
		if !ok {
			return nil, false
		}
		if iv.T == nil {
			out[i] = nil
			continue
		}
		t, ok := iv.V.(*Term)
		if !ok || !t.Const {
			return nil, false
		}
		switch t.Sort.K {
		case SStr:
			out[i] = t.S
		case SBool:
			out[i] = t.U == 1
		case SFP:
			out[i] = t.F
		case SBV:
			if isUnsigned(iv.T) {
				out[i] = t.U
			} else {
				out[i] = signExt(t.U, t.Sort.W)
			}
		}
	}
	return out, true
}

func (w *Worker) symFormat(tag string, vals []Value) *Term {
	var ts []*Term
	for _, v := range vals {
		if iv, ok := v.(IfaceV); ok {
			if t, ok := iv.V.(*Term); ok {
				ts = append(ts, t)
			} else if op, ok := iv.V.(OpaqueV); ok {
				if t, ok := op.X.(*Term); ok {
					ts = append(ts, t)
				}
			}
		} else if t, ok := v.(*Term); ok {
			ts = append(ts, t)
		}
	}
	return w.tc.UF("fmt:"+tag, sortStr, ts...)
}

var pureIntVerb = regexp.MustCompile(`^%[0-9]*d$`)

func init() {
	intrinsics = map[string]stubFn{
		"Int64": func(w *Worker, s *State, f *Frame, fn *ssa.Function, a []Value, d int) (Value, bool) {
			return w.input(s, w.concStr(a[0], "input name"), bv(64)), false
		},
		"Uint64": func(w *Worker, s *State, f *Frame, fn *ssa.Function, a []Value, d int) (Value, bool) {
			return w.input(s, w.concStr(a[0], "input name"), bv(64)), false
		},
		"Int": func(w *Worker, s *State, f *Frame, fn *ssa.Function, a []Value, d int) (Value, bool) {
			return w.input(s, w.concStr(a[0], "input name"), bv(64)), false
		},
		"Int32": func(w *Worker, s *State, f *Frame, fn *ssa.Function, a []Value, d int) (Value, bool) {
			return w.input(s, w.concStr(a[0], "input name"), bv(32)), false
		},
		"Byte": func(w *Worker, s *State, f *Frame, fn *ssa.Function, a []Value, d int) (Value, bool) {
			return w.input(s, w.concStr(a[0], "input name"), bv(8)), false
		},
		"Bool": func(w *Worker, s *State, f *Frame, fn *ssa.Function, a []Value, d int) (Value, bool) {
			return w.input(s, w.concStr(a[0], "input name"), sortBool), false
		},
		"Str": func(w *Worker, s *State, f *Frame, fn *ssa.Function, a []Value, d int) (Value, bool) {
			t := w.input(s, w.concStr(a[0], "input name"), sortStr)
			pool := sliceElemsOrNil(a[1])
			if len(pool) > 0 && !t.Const {
				var alts []*Term
				for _, p := range pool {
					alts = append(alts, w.tc.Eq(t, p.(*Term)))
				}
				s.pc = s.pc.push(w.tc.Or(alts...))
			}
			return t, false
		},
		"Time": func(w *Worker, s *State, f *Frame, fn *ssa.Function, a []Value, d int) (Value, bool) {
			t := w.input(s, w.concStr(a[0], "input name"), bv(64))
			c := w.tc.And(w.tc.Cmp("bvsle", w.tc.BV(64, 0), t), w.tc.Cmp("bvslt", t, w.tc.BV(64, 1<<61)))
			if c.IsFalse() {
				panic(pathDead{})
			}
			if !c.IsTrue() {
				s.pc = s.pc.push(c)
			}
			return timeValue(w, t), false
		},
		"TimeNs": func(w *Worker, s *State, f *Frame, fn *ssa.Function, a []Value, d int) (Value, bool) {
			return timeNs(a[0]), false
		},
		"Choose": func(w *Worker, s *State, f *Frame, fn *ssa.Function, a []Value, d int) (Value, bool) {
			name := w.concStr(a[0], "choice name")
			n := w.concInt(a[1], "choice arity")
			if w.cfg.concrete != nil {
				if v, ok := w.cfg.concrete["choose."+name]; ok {
					switch x := v.(type) {
					case float64:
						return w.tc.BV(64, uint64(int64(x))), false
					case int:
						return w.tc.BV(64, uint64(int64(x))), false
					}
				}
			}
			if k, done := s.chosen[name]; done {
				return w.tc.BV(64, uint64(k)), false // a named choice is made once per path
			}
			k := w.decide(s, n, "choose", name)
			if s.chosen == nil {
				s.chosen = map[string]int{}
			}
			s.chosen[name] = k
			return w.tc.BV(64, uint64(k)), false
		},
		"Assume": func(w *Worker, s *State, f *Frame, fn *ssa.Function, a []Value, d int) (Value, bool) {
			c := w.term(a[0])
			if c.IsTrue() {
				return nil, false
			}
			if c.IsFalse() {
				panic(pathDead{})
			}
			if len(s.forced) > 0 { // replaying a shipped trail: feasibility was established already
				s.pc = s.pc.push(c)
				return nil, false
			}
			if w.check(s.pc, c) == "unsat" {
				panic(pathDead{})
			}
			s.pc = s.pc.push(c)
			return nil, false
		},
		"Assert": func(w *Worker, s *State, f *Frame, fn *ssa.Function, a []Value, d int) (Value, bool) {
			w.doAssert(s, w.concStr(a[0], "assert label"), w.term(a[1]))
			return nil, false
		},
		"AssertSym": func(w *Worker, s *State, f *Frame, fn *ssa.Function, a []Value, d int) (Value, bool) {
			// an assertion over engine-only observations (e.g. lock acquisitions): a counterexample is
			// confirmed by re-executing the real SSA concretely, not by the native build
			w.doAssert(s, "sym:"+w.concStr(a[0], "assert label"), w.term(a[1]))
			return nil, false
		},
		"Finding": func(w *Worker, s *State, f *Frame, fn *ssa.Function, a []Value, d int) (Value, bool) {
			s.pending = append(s.pending, findingPred{w.concStr(a[0], "finding id"), w.term(a[1])})
			return nil, false
		},
		"Cover": func(w *Worker, s *State, f *Frame, fn *ssa.Function, a []Value, d int) (Value, bool) {
			s.covers[w.concStr(a[0], "cover label")] = true
			return nil, false
		},
		"Observe": func(w *Worker, s *State, f *Frame, fn *ssa.Function, a []Value, d int) (Value, bool) {
			label := w.concStr(a[0], "observe label")
			var vals []Value
			for _, v := range sliceElemsOrNil(a[1]) {
				iv := v.(IfaceV)
				if iv.T == nil {
					vals = append(vals, w.tc.Str("<nil>"))
				} else if t, ok := iv.V.(*Term); ok {
					if t.Sort.K == SBV && !isUnsigned(iv.T) && t.Sort.W < 64 {
						t = w.tc.SignExt(64, t)
					} else if t.Sort.K == SBV && t.Sort.W < 64 {
						t = w.tc.ZeroExt(64, t)
					}
					vals = append(vals, obsTerm{t, !isUnsigned(iv.T)})
				} else {
					panic(unsupported{fmt.Sprintf("Observe of non-scalar %T", iv.V)})
				}
			}
			n := 1
			if s.obs != nil {
				n = s.obs.n + 1
			}
			s.obs = &obsRec{label: label, vals: vals, prev: s.obs, n: n}
			return nil, false
		},
		"Crashed": func(w *Worker, s *State, f *Frame, fn *ssa.Function, a []Value, d int) (Value, bool) {
			c := a[0].(*ClosureV)
			fr := s.pushFrame(c.Fn, nil, c.Bind, d)
			fr.catch = true
			return nil, true
		},
		"OnPath": func(w *Worker, s *State, f *Frame, fn *ssa.Function, a []Value, d int) (Value, bool) {
			return w.tc.Bool(s.edges[w.concStr(a[0], "edge")]), false
		},
		"Itoa": func(w *Worker, s *State, f *Frame, fn *ssa.Function, a []Value, d int) (Value, bool) {
			return w.tc.Str(strconv.Itoa(w.concInt(a[0], "Itoa argument"))), false
		},
		"Err": func(w *Worker, s *State, f *Frame, fn *ssa.Function, a []Value, d int) (Value, bool) {
			return w.newError(s, w.term(a[0])), false
		},
		"Symbolic": func(w *Worker, s *State, f *Frame, fn *ssa.Function, a []Value, d int) (Value, bool) {
			return w.tc.True, false
		},
		"Implies": func(w *Worker, s *State, f *Frame, fn *ssa.Function, a []Value, d int) (Value, bool) {
			return w.tc.Implies(w.term(a[0]), w.term(a[1])), false
		},
		"And": func(w *Worker, s *State, f *Frame, fn *ssa.Function, a []Value, d int) (Value, bool) {
			var ts []*Term
			for _, v := range sliceElemsOrNil(a[0]) {
				ts = append(ts, w.term(v))
			}
			return w.tc.And(ts...), false
		},
		"Or": func(w *Worker, s *State, f *Frame, fn *ssa.Function, a []Value, d int) (Value, bool) {
			var ts []*Term
			for _, v := range sliceElemsOrNil(a[0]) {
				ts = append(ts, w.term(v))
			}
			return w.tc.Or(ts...), false
		},
		"IfInt64": func(w *Worker, s *State, f *Frame, fn *ssa.Function, a []Value, d int) (Value, bool) {
			return w.tc.Ite(w.term(a[0]), w.term(a[1]), w.term(a[2])), false
		},
		"IfUint64": func(w *Worker, s *State, f *Frame, fn *ssa.Function, a []Value, d int) (Value, bool) {
			return w.tc.Ite(w.term(a[0]), w.term(a[1]), w.term(a[2])), false
		},
		"IfFloat": func(w *Worker, s *State, f *Frame, fn *ssa.Function, a []Value, d int) (Value, bool) {
			return w.tc.Ite(w.term(a[0]), w.term(a[1]), w.term(a[2])), false
		},
		"IfStr": func(w *Worker, s *State, f *Frame, fn *ssa.Function, a []Value, d int) (Value, bool) {
			return w.tc.Ite(w.term(a[0]), w.term(a[1]), w.term(a[2])), false
		},
		"IfInt32": func(w *Worker, s *State, f *Frame, fn *ssa.Function, a []Value, d int) (Value, bool) {
			return w.tc.Ite(w.term(a[0]), w.term(a[1]), w.term(a[2])), false
		},
		"FreezeClock": func(w *Worker, s *State, f *Frame, fn *ssa.Function, a []Value, d int) (Value, bool) {
			if s.ghost == nil {
				s.ghost = map[string]Value{}
			}
			s.ghost["clockfrozen"] = w.tc.True
			return nil, false
		},
		"LockCount": func(w *Worker, s *State, f *Frame, fn *ssa.Function, a []Value, d int) (Value, bool) {
			return w.tc.BV(64, uint64(s.lockCount)), false
		},
		"Prop": func(w *Worker, s *State, f *Frame, fn *ssa.Function, a []Value, d int) (Value, bool) {
			return w.tc.Bool(len(w.cfg.Props) == 0 || w.cfg.Props[w.concStr(a[0], "property id")]), false
		},
		"Known": func(w *Worker, s *State, f *Frame, fn *ssa.Function, a []Value, d int) (Value, bool) {
			return w.tc.Bool(w.cfg.KnownIDs[w.concStr(a[0], "finding id")]), false
		},
		"SameObject": func(w *Worker, s *State, f *Frame, fn *ssa.Function, a []Value, d int) (Value, bool) {
			x, y := a[0].(IfaceV), a[1].(IfaceV)
			return w.eqValues(x, y), false
		},
		"Swr": func(w *Worker, s *State, f *Frame, fn *ssa.Function, a []Value, d int) (Value, bool) {
			// summary of seriesWithRate(series, rate) = int64(float64(series) * rate) for a concrete
			// rate: identity for 1, zero for 0, otherwise an uninterpreted function with the bounds
			// proved by the VLemmaSwr obligations (for 0 <= series <= 2^40)
			rate := w.term(a[1])
			x := w.term(a[0])
			if !rate.Const {
				panic(unsupported{"Swr with symbolic rate"})
			}
			exact := w.tc.FPToInt(w.tc.FPBin("fp.mul", w.tc.IntToFP(x, true), rate), 64, true)
			if x.Const || w.cfg.concrete != nil || w.cfg.ExactSwr {
				return exact, false
			}
			tc := w.tc
			if rate.F == 1 {
				return x, false
			}
			if rate.F == 0 {
				return tc.BV(64, 0), false
			}
			q := tc.UF("swr_"+strconv.FormatFloat(rate.F, 'g', -1, 64), bv(64), x)
			inRange := tc.And(tc.Cmp("bvsle", tc.BV(64, 0), x), tc.Cmp("bvsle", x, tc.BV(64, 1<<40)))
			var lem *Term
			if rate.F > 1 && rate.F <= 2 {
				lem = tc.Implies(inRange, tc.And(tc.Cmp("bvsle", x, q), tc.Cmp("bvsle", q, tc.Add(x, x))))
			} else if rate.F > 0 && rate.F < 1 {
				lem = tc.Implies(inRange, tc.And(tc.Cmp("bvsle", tc.BV(64, 0), q), tc.Cmp("bvsle", q, x)))
			} else {
				panic(unsupported{"Swr rate outside (0,2]"})
			}
			s.pc = s.pc.push(lem)
			s.abst = &absRec{uf: q, exact: exact, prev: s.abst}
			return q, false
		},
	}

	noop := func(w *Worker, s *State, f *Frame, fn *ssa.Function, a []Value, d int) (Value, bool) { return nil, false }
	nilErr := func(w *Worker, s *State, f *Frame, fn *ssa.Function, a []Value, d int) (Value, bool) {
		return IfaceV{}, false
	}
	freshErr := func(tag string) stubFn {
		return func(w *Worker, s *State, f *Frame, fn *ssa.Function, a []Value, d int) (Value, bool) {
			return w.newError(s, w.symFormat(tag, a)), false
		}
	}
	wrap := func(w *Worker, s *State, f *Frame, fn *ssa.Function, a []Value, d int) (Value, bool) {
		if iv, ok := a[0].(IfaceV); ok && iv.T == nil {
			return IfaceV{}, false
		}
		s.nOpaque++
		return w.newError(s, w.tc.UF("wrap", sortStr, a[0].(IfaceV).V.(OpaqueV).X.(*Term), w.tc.BV(64, uint64(s.nOpaque)))), false
	}
	sprintf := func(w *Worker, s *State, f *Frame, fn *ssa.Function, a []Value, d int) (Value, bool) {
		format := w.term(a[0])
		vals := sliceElemsOrNil(a[1])
		if format.Const {
			if cv, ok := w.fmtConcrete(vals); ok {
				return w.tc.Str(fmt.Sprintf(format.S, cv...)), false
			}
			// a lone integer verb ("%d", "%016d") of a symbolic integer stays symbolic: the text is an
			// uninterpreted function of the number
			if pureIntVerb.MatchString(format.S) {
				return w.symFormat(format.S, vals), false
			}
			// a symbolic integer among otherwise concrete arguments is concretised by forking over
			// its feasible values in [0,16] (names built from ordinals, e.g. "<claim>-<sts>-<i>")
			for i, v := range vals {
				iv, isI := v.(IfaceV)
				if !isI {
					continue
				}
				t, isT := iv.V.(*Term)
				if !isT || t.Const || t.Sort.K != SBV {
					continue
				}
				var guards []*Term
				for k := 0; k <= 16; k++ {
					guards = append(guards, w.tc.Eq(t, w.tc.BV(t.Sort.W, uint64(k))))
				}
				var outside []*Term
				for _, g := range guards {
					outside = append(outside, w.tc.Not(g))
				}
				guards = append(guards, w.tc.And(outside...))
				k := w.decideAmong(s, guards, "concretise", "")
				if k > 16 {
					break
				}
				nv := append([]Value(nil), vals...)
				nv[i] = IfaceV{T: iv.T, V: w.tc.BV(t.Sort.W, uint64(k))}
				if cv, ok := w.fmtConcrete(nv); ok {
					return w.tc.Str(fmt.Sprintf(format.S, cv...)), false
				}
				vals = nv
			}
			return w.symFormat(format.S, vals), false
		}
		return w.symFormat("?", append([]Value{format}, vals...)), false
	}
	stubs = map[string]stubFn{
		"fmt.Errorf": func(w *Worker, s *State, f *Frame, fn *ssa.Function, a []Value, d int) (Value, bool) {
			format := w.term(a[0])
			tag := "?"
			if format.Const {
				tag = format.S
			}
			msg := w.symFormat("err:"+tag, sliceElemsOrNil(a[1]))
			if format.Const && hasLiteralText(format.S) && !msg.Const {
				// a format with literal text never yields the empty string
				s.pc = s.pc.push(w.tc.Not(w.tc.Eq(msg, w.tc.Str(""))))
			}
			return w.newError(s, msg), false
		},
		"errors.New":                       freshErr("errors.New"),
		"github.com/pkg/errors.New":        freshErr("errors.New"),
		"github.com/pkg/errors.Errorf":     freshErr("errors.Errorf"),
		"github.com/pkg/errors.Wrap":       wrap,
		"github.com/pkg/errors.Wrapf":      wrap,
		"github.com/pkg/errors.WithStack":  wrap,
		"fmt.Sprintf":                      sprintf,
		"fmt.Sprint": func(w *Worker, s *State, f *Frame, fn *ssa.Function, a []Value, d int) (Value, bool) {
			vals := sliceElemsOrNil(a[0])
			if cv, ok := w.fmtConcrete(vals); ok {
				return w.tc.Str(fmt.Sprint(cv...)), false
			}
			return w.symFormat("sprint", vals), false
		},
		"strconv.Itoa": func(w *Worker, s *State, f *Frame, fn *ssa.Function, a []Value, d int) (Value, bool) {
			t := w.term(a[0])
			if t.Const {
				return w.tc.Str(strconv.Itoa(int(signExt(t.U, 64)))), false
			}
			return w.tc.UF("itoa", sortStr, t), false
		},
		"path.Join": func(w *Worker, s *State, f *Frame, fn *ssa.Function, a []Value, d int) (Value, bool) {
			var parts []string
			var ts []*Term
			conc := true
			for _, v := range sliceElemsOrNil(a[0]) {
				t := v.(*Term)
				ts = append(ts, t)
				if !t.Const {
					conc = false
				} else {
					parts = append(parts, t.S)
				}
			}
			if conc {
				return w.tc.Str(strings.Join(parts, "/")), false
			}
			return w.tc.UF("path.Join", sortStr, ts...), false
		},
		"time.Now": func(w *Worker, s *State, f *Frame, fn *ssa.Function, a []Value, d int) (Value, bool) {
			return timeValue(w, w.now(s)), false
		},
		"time.Unix": func(w *Worker, s *State, f *Frame, fn *ssa.Function, a []Value, d int) (Value, bool) {
			sec, ns := w.term(a[0]), w.term(a[1])
			return timeValue(w, w.tc.Add(w.tc.bvBin("bvmul", sec, w.tc.BV(64, 1000000000)), ns)), false
		},
		"time.Since": func(w *Worker, s *State, f *Frame, fn *ssa.Function, a []Value, d int) (Value, bool) {
			return w.tc.Sub(w.now(s), timeNs(a[0])), false
		},
		"(time.Time).Sub": func(w *Worker, s *State, f *Frame, fn *ssa.Function, a []Value, d int) (Value, bool) {
			return w.tc.Sub(timeNs(a[0]), timeNs(a[1])), false
		},
		"(time.Time).UnixNano": func(w *Worker, s *State, f *Frame, fn *ssa.Function, a []Value, d int) (Value, bool) {
			return timeNs(a[0]), false
		},
		"(time.Time).Before": func(w *Worker, s *State, f *Frame, fn *ssa.Function, a []Value, d int) (Value, bool) {
			return w.tc.Cmp("bvslt", timeNs(a[0]), timeNs(a[1])), false
		},
		"(time.Time).After": func(w *Worker, s *State, f *Frame, fn *ssa.Function, a []Value, d int) (Value, bool) {
			return w.tc.Cmp("bvsgt", timeNs(a[0]), timeNs(a[1])), false
		},
		"(time.Time).Equal": func(w *Worker, s *State, f *Frame, fn *ssa.Function, a []Value, d int) (Value, bool) {
			return w.tc.Eq(timeNs(a[0]), timeNs(a[1])), false
		},
		"(time.Time).IsZero": func(w *Worker, s *State, f *Frame, fn *ssa.Function, a []Value, d int) (Value, bool) {
			return w.tc.Eq(timeNs(a[0]), w.tc.BV(64, 0)), false
		},
		"(time.Time).Add": func(w *Worker, s *State, f *Frame, fn *ssa.Function, a []Value, d int) (Value, bool) {
			return timeValue(w, w.tc.Add(timeNs(a[0]), w.term(a[1]))), false
		},
		"(time.Duration).Seconds": func(w *Worker, s *State, f *Frame, fn *ssa.Function, a []Value, d int) (Value, bool) {
			t := w.term(a[0])
			if t.Const {
				return w.tc.FP(float64(signExt(t.U, 64)) / 1e9), false
			}
			return w.tc.UF("seconds", sortFP, t), false
		},
		"(*golang.org/x/sync/errgroup.Group).Go": func(w *Worker, s *State, f *Frame, fn *ssa.Function, a []Value, d int) (Value, bool) {
			c := a[1].(*ClosureV)
			if c == nil {
				panic(crash{"errgroup.Go(nil)"})
			}
			if s.threadsOn {
				id := w.spawn(s, func() { s.pushFrame(c.Fn, nil, c.Bind, -1) })
				if s.groups == nil {
					s.groups = map[string][]int{}
				}
				k := objKey(a[0])
				s.groups[k] = append(s.groups[k], id)
				return nil, false
			}
			fr := s.pushFrame(c.Fn, nil, c.Bind, -1)
			fr.discard = true
			return nil, true
		},
		"(*golang.org/x/sync/errgroup.Group).Wait": func(w *Worker, s *State, f *Frame, fn *ssa.Function, a []Value, d int) (Value, bool) {
			if s.threadsOn {
				// the goroutines' error results are not propagated (the functions under analysis return nil)
				if !w.schedPoint(s, &waitDesc{kind: "join", join: append([]int(nil), s.groups[objKey(a[0])]...)}) {
					return nil, true
				}
			}
			return IfaceV{}, false
		},
		"time.Sleep": func(w *Worker, s *State, f *Frame, fn *ssa.Function, a []Value, d int) (Value, bool) {
			if s.threads != nil {
				if !w.schedPoint(s, &waitDesc{kind: "sleep"}) {
					return nil, true
				}
			}
			w.sleep(s, w.term(a[0]))
			return nil, false
		},
		"(*sync.Mutex).Lock":                         lockStub(1, "mutex"),
		"(*sync.Mutex).Unlock":                       lockStub(-1, "mutex"),
		"(*sync.RWMutex).Lock":                       lockStub(1, "rw"),
		"(*sync.RWMutex).Unlock":                     lockStub(-1, "rw"),
		"(*sync.RWMutex).RLock":                      lockStub(1, "r"),
		"(*sync.RWMutex).RUnlock":                    lockStub(-1, "r"),
		"github.com/mroth/weightedrand.NewChooser": func(w *Worker, s *State, f *Frame, fn *ssa.Function, a []Value, d int) (Value, bool) {
			choices := sliceElemsOrNil(a[0])
			sum := w.tc.BV(64, 0)
			var small []*Term
			for _, c := range choices {
				wt := c.(*StructV).F[1].(*Term)
				sum = w.tc.Add(sum, wt)
				small = append(small, w.tc.Cmp("bvult", wt, w.tc.BV(64, 1<<50)))
			}
			// weights are bounded by the series bound (2^40) in every harness; an overflowing sum is
			// outside the model
			bounded := w.tc.And(small...)
			if !w.branch(s, bounded) {
				panic(unsupported{"weightedrand weight >= 2^50 (outside the stated value bound)"})
			}
			ok := w.tc.Cmp("bvuge", sum, w.tc.BV(64, 1))
			if w.branch(s, ok) {
				var cp []Value
				for _, c := range choices {
					cp = append(cp, copyAgg(c))
				}
				s.nOpaque++
				o := s.newObj("cell", OpaqueV{ID: s.nOpaque, Tag: "chooser", X: TupleV(cp)})
				return TupleV{Ptr{O: o}, IfaceV{}}, false
			}
			return TupleV{Ptr{}, w.newError(s, w.tc.Str("zero Choices with Weight >= 1"))}, false
		},
		"(github.com/mroth/weightedrand.Chooser).Pick": func(w *Worker, s *State, f *Frame, fn *ssa.Function, a []Value, d int) (Value, bool) {
			ch := a[0].(OpaqueV).X.(TupleV)
			var guards []*Term
			for _, c := range ch {
				guards = append(guards, w.tc.Cmp("bvuge", c.(*StructV).F[1].(*Term), w.tc.BV(64, 1)))
			}
			i := w.decideAmong(s, guards, "pick", "")
			return ch[i].(*StructV).F[0], false
		},
		"(*github.com/prometheus/prometheus/pkg/labels.Labels).Get": nil,
	}
	delete(stubs, "(*github.com/prometheus/prometheus/pkg/labels.Labels).Get")
	_ = noop
	_ = nilErr
}

type obsTerm struct {
	t      *Term
	signed bool
}

func sliceElemsOrNil(v Value) []Value {
	sl, ok := v.(SliceV)
	if !ok || sl.O == nil {
		return nil
	}
	return sliceElems(sl)
}

func lockStub(delta int, kind string) stubFn {
	return func(w *Worker, s *State, f *Frame, fn *ssa.Function, a []Value, d int) (Value, bool) {
		p := a[0].(Ptr)
		if p.O == nil {
			panic(crash{"nil mutex"})
		}
		key := fmt.Sprintf("%d%v", p.O.ID, p.Path)
		if delta > 0 {
			wk := "lock"
			if kind == "r" {
				wk = "rlock"
			}
			if s.threads != nil {
				if !w.schedPoint(s, &waitDesc{kind: wk, key: key}) {
					return nil, true
				}
			}
			s.lockCount++
		}
		switch kind {
		case "mutex", "rw":
			if delta > 0 {
				if s.locks[key] != 0 || s.locks[key+"r"] != 0 {
					panic(unsupported{"lock acquired while held (deadlock in sequential execution)"})
				}
				s.locks[key] = 1
			} else {
				if s.locks[key] != 1 {
					panic(crash{"sync: unlock of unlocked mutex"})
				}
				s.locks[key] = 0
			}
		case "r":
			if delta > 0 {
				if s.locks[key] != 0 {
					panic(unsupported{"RLock while write-locked (deadlock in sequential execution)"})
				}
				s.locks[key+"r"]++
			} else {
				if s.locks[key+"r"] <= 0 {
					panic(crash{"sync: RUnlock of unlocked RWMutex"})
				}
				s.locks[key+"r"]--
			}
		}
		return nil, false
	}
}

var _ = types.Universe

func hasLiteralText(format string) bool {
	for i := 0; i < len(format); i++ {
		if format[i] == '%' {
			i++
			continue
		}
		return true
	}
	return false
}
