package main

import (
	"fmt"
	"go/token"
	"go/types"

	"golang.org/x/tools/go/ssa"
)

func (w *Worker) boolOf(b bool) *Term { return w.tc.Bool(b) }

// eqValues returns a Bool term for x == y (Go semantics) for comparable values.
func (w *Worker) eqValues(x, y Value) *Term {
	switch a := x.(type) {
	case *Term:
		return w.tc.Eq(a, y.(*Term))
	case Ptr:
		b, ok := y.(Ptr)
		if !ok {
			panic(fmt.Sprintf("compare Ptr with %T", y))
		}
		return w.boolOf(samePtr(a, b))
	case IfaceV:
		b, ok := y.(IfaceV)
		if !ok {
			panic(fmt.Sprintf("compare IfaceV with %T", y))
		}
		if a.T == nil || b.T == nil {
			return w.boolOf(a.T == nil && b.T == nil)
		}
		if !types.Identical(a.T, b.T) {
			return w.tc.False
		}
		return w.eqValues(a.V, b.V)
	case MapV:
		b := y.(MapV)
		return w.boolOf(a.O == b.O)
	case SliceV:
		b := y.(SliceV)
		if a.O != nil && b.O != nil {
			panic(crash{"comparing two non-nil slices"})
		}
		return w.boolOf(a.O == nil && b.O == nil)
	case *ClosureV:
		b := y.(*ClosureV)
		return w.boolOf(a == nil && b == nil)
	case ChanV:
		return w.boolOf(a.O == y.(ChanV).O)
	case *StructV:
		b := y.(*StructV)
		var cs []*Term
		for i := range a.F {
			cs = append(cs, w.eqValues(a.F[i], b.F[i]))
		}
		return w.tc.And(cs...)
	case *ArrayV:
		b := y.(*ArrayV)
		var cs []*Term
		for i := range a.E {
			cs = append(cs, w.eqValues(a.E[i], b.E[i]))
		}
		return w.tc.And(cs...)
	case OpaqueV:
		b, ok := y.(OpaqueV)
		return w.boolOf(ok && a.ID == b.ID)
	case nil:
		return w.boolOf(y == nil)
	}
	panic(unsupported{fmt.Sprintf("comparison of %T", x)})
}

func (w *Worker) binop(s *State, op token.Token, xt types.Type, xv, yv Value, yt types.Type) Value {
	switch op {
	case token.EQL:
		return w.eqValues(xv, yv)
	case token.NEQ:
		return w.tc.Not(w.eqValues(xv, yv))
	}
	x, okx := xv.(*Term)
	y, oky := yv.(*Term)
	if !okx || !oky {
		panic(unsupported{fmt.Sprintf("binary %s on %T,%T", op, xv, yv)})
	}
	tc := w.tc
	switch x.Sort.K {
	case SStr:
		if op == token.ADD {
			if x.Const && y.Const {
				return tc.Str(x.S + y.S)
			}
			if x.Const && x.S == "" {
				return y
			}
			if y.Const && y.S == "" {
				return x
			}
			// symbolic concatenation: an injective uninterpreted function of its parts
			return tc.UF("concat", sortStr, x, y)
		}
		if x.Const && y.Const {
			switch op {
			case token.LSS:
				return tc.Bool(x.S < y.S)
			case token.LEQ:
				return tc.Bool(x.S <= y.S)
			case token.GTR:
				return tc.Bool(x.S > y.S)
			case token.GEQ:
				return tc.Bool(x.S >= y.S)
			}
		}
		// uninterpreted strict total order over string atoms
		switch op {
		case token.LSS:
			return w.strLess(x, y)
		case token.GTR:
			return w.strLess(y, x)
		case token.LEQ:
			return tc.Not(w.strLess(y, x))
		case token.GEQ:
			return tc.Not(w.strLess(x, y))
		}
		panic(unsupported{"string operator " + op.String()})
	case SFP:
		switch op {
		case token.ADD:
			return tc.FPBin("fp.add", x, y)
		case token.SUB:
			return tc.FPBin("fp.sub", x, y)
		case token.MUL:
			return tc.FPBin("fp.mul", x, y)
		case token.QUO:
			return tc.FPBin("fp.div", x, y)
		case token.LSS:
			return tc.FPCmp("fp.lt", x, y)
		case token.LEQ:
			return tc.FPCmp("fp.leq", x, y)
		case token.GTR:
			return tc.FPCmp("fp.gt", x, y)
		case token.GEQ:
			return tc.FPCmp("fp.geq", x, y)
		}
		panic(unsupported{"float operator " + op.String()})
	case SBool:
		switch op {
		case token.AND, token.LAND:
			return tc.And(x, y)
		case token.OR, token.LOR:
			return tc.Or(x, y)
		}
		panic(unsupported{"bool operator " + op.String()})
	}
	uns := isUnsigned(xt)
	switch op {
	case token.ADD:
		return tc.Add(x, y)
	case token.SUB:
		return tc.Sub(x, y)
	case token.MUL:
		return tc.bvBin("bvmul", x, y)
	case token.QUO, token.REM:
		if !y.Const {
			z := tc.Eq(y, tc.BV(y.Sort.W, 0))
			if w.branch(s, z) {
				panic(crash{"integer divide by zero"})
			}
		} else if y.U == 0 {
			panic(crash{"integer divide by zero"})
		}
		name := "bvsdiv"
		if op == token.REM {
			name = "bvsrem"
		}
		if uns {
			name = "bvudiv"
			if op == token.REM {
				name = "bvurem"
			}
		}
		if x.Const && x.U == 0 {
			return x // 0 / y and 0 % y are 0 (y != 0 on this path)
		}
		if !y.Const && w.cfg.concrete == nil {
			return w.absDiv(s, name, x, y)
		}
		return tc.bvBin(name, x, y)
	case token.AND:
		return tc.bvBin("bvand", x, y)
	case token.OR:
		return tc.bvBin("bvor", x, y)
	case token.XOR:
		return tc.bvBin("bvxor", x, y)
	case token.AND_NOT:
		return tc.bvBin("bvand", x, tc.BvNot(y))
	case token.SHL, token.SHR:
		// shift count: unsigned (or non-negative); bring to x's width, saturating
		cnt := y
		if cnt.Sort.W != x.Sort.W {
			if cnt.Const {
				v := cnt.U
				if !isUnsigned(yt) && signExt(cnt.U, cnt.Sort.W) < 0 {
					panic(crash{"negative shift amount"})
				}
				if v > 64 {
					v = 64
				}
				cnt = tc.BV(x.Sort.W, v)
			} else if cnt.Sort.W < x.Sort.W {
				cnt = tc.ZeroExt(x.Sort.W, cnt)
			} else {
				panic(unsupported{"symbolic shift count wider than operand"})
			}
		}
		if op == token.SHL {
			return tc.bvBin("bvshl", x, cnt)
		}
		if uns {
			return tc.bvBin("bvlshr", x, cnt)
		}
		return tc.bvBin("bvashr", x, cnt)
	case token.LSS:
		if uns {
			return tc.Cmp("bvult", x, y)
		}
		return tc.Cmp("bvslt", x, y)
	case token.LEQ:
		if uns {
			return tc.Cmp("bvule", x, y)
		}
		return tc.Cmp("bvsle", x, y)
	case token.GTR:
		if uns {
			return tc.Cmp("bvugt", x, y)
		}
		return tc.Cmp("bvsgt", x, y)
	case token.GEQ:
		if uns {
			return tc.Cmp("bvuge", x, y)
		}
		return tc.Cmp("bvsge", x, y)
	}
	panic(unsupported{"integer operator " + op.String()})
}

// strLess: an uninterpreted strict total order over string atoms. Axioms are instantiated lazily
// for the pairs actually compared: irreflexive + antisymmetric + total via a rank function.
func (w *Worker) strLess(x, y *Term) *Term {
	// rank: Str -> 64-bit, injective is not expressible cheaply; use rank + tie-break on atom id
	rx := w.tc.UF("strrank", bv(64), x)
	ry := w.tc.UF("strrank", bv(64), y)
	if x == y {
		return w.tc.False
	}
	return w.tc.Cmp("bvult", rx, ry)
}

func (w *Worker) unop(s *State, x *ssa.UnOp, v Value) Value {
	switch x.Op {
	case token.MUL:
		if op, isOp := v.(OpaqueV); isOp {
			return op
		}
		p, ok := v.(Ptr)
		if !ok {
			panic(fmt.Sprintf("load through %T", v))
		}
		return s.load(p)
	case token.NOT:
		return w.tc.Not(w.term(v))
	case token.SUB:
		t := w.term(v)
		if t.Sort.K == SFP {
			return w.tc.FPNeg(t)
		}
		return w.tc.Neg(t)
	case token.XOR:
		return w.tc.BvNot(w.term(v))
	}
	panic(unsupported{"unary " + x.Op.String()})
}

func (w *Worker) convert(s *State, v Value, from, to types.Type) Value {
	fu, tu := from.Underlying(), to.Underlying()
	fb, fok := fu.(*types.Basic)
	tb, tok := tu.(*types.Basic)
	if fok && tok {
		t := w.term(v)
		fs, ok1 := basicSort(fb)
		ts, ok2 := basicSort(tb)
		if !ok1 || !ok2 {
			if fb.Kind() == types.UnsafePointer || tb.Kind() == types.UnsafePointer {
				panic(unsupported{"unsafe.Pointer conversion"})
			}
			if tb.Kind() == types.Float32 || fb.Kind() == types.Float32 {
				panic(unsupported{"float32 conversion"})
			}
			panic(unsupported{"conversion " + from.String() + " -> " + to.String()})
		}
		switch {
		case fs.K == SBV && ts.K == SBV:
			if ts.W < fs.W {
				return w.tc.Extract(ts.W-1, 0, t)
			}
			if fb.Info()&types.IsUnsigned != 0 {
				return w.tc.ZeroExt(ts.W, t)
			}
			return w.tc.SignExt(ts.W, t)
		case fs.K == SBV && ts.K == SFP:
			return w.tc.IntToFP(t, fb.Info()&types.IsUnsigned == 0)
		case fs.K == SFP && ts.K == SBV:
			return w.tc.FPToInt(t, ts.W, tb.Info()&types.IsUnsigned == 0)
		case fs.K == SFP && ts.K == SFP:
			return t
		case fs.K == SStr && ts.K == SStr:
			return t
		case fs.K == SBV && ts.K == SStr:
			if t.Const {
				return w.tc.Str(string(rune(signExt(t.U, t.Sort.W))))
			}
		}
		panic(unsupported{"conversion " + from.String() + " -> " + to.String()})
	}
	// string <-> []byte
	if fok && fb.Info()&types.IsString != 0 {
		if sl, ok := tu.(*types.Slice); ok {
			if eb, ok := sl.Elem().Underlying().(*types.Basic); ok && eb.Kind() == types.Uint8 {
				t := w.term(v)
				if !t.Const {
					// opaque bytes of a symbolic string: only hashing stubs consume them
					arr := &ArrayV{E: []Value{OpaqueV{Tag: "symbytes", X: t}}}
					return SliceV{s.newObj("array", arr), 0, 1, 1}
				}
				arr := &ArrayV{make([]Value, len(t.S))}
				for i := range arr.E {
					arr.E[i] = w.tc.BV(8, uint64(t.S[i]))
				}
				return SliceV{s.newObj("array", arr), 0, len(t.S), len(t.S)}
			}
		}
	}
	if tok && tb.Info()&types.IsString != 0 {
		if sl, ok := v.(SliceV); ok {
			buf := make([]byte, sl.Len)
			for i := 0; i < sl.Len; i++ {
				e := sl.O.Val.(*ArrayV).E[sl.Off+i].(*Term)
				if !e.Const {
					panic(unsupported{"string([]byte) with symbolic bytes"})
				}
				buf[i] = byte(e.U)
			}
			return w.tc.Str(string(buf))
		}
	}
	// pointer / named conversions between identical underlying types
	switch v.(type) {
	case Ptr, *StructV, SliceV, MapV, *ClosureV, ChanV, *ArrayV:
		return v
	}
	panic(unsupported{"conversion " + from.String() + " -> " + to.String()})
}

// absDiv abstracts a division/remainder with symbolic dividend and divisor by an uninterpreted
// function constrained by lemmas that hold for the exact operation (valid bit-vector facts for
// non-negative dividend and positive divisor). unsat answers carry over to the exact semantics;
// a sat answer to a property query is re-asked with the exact definition (doAssert).
func (w *Worker) absDiv(s *State, name string, x, y *Term) *Term {
	tc := w.tc
	exact := tc.bvBin(name, x, y)
	if name != "bvsdiv" && name != "bvudiv" {
		return exact
	}
	q := tc.UF("abs_"+name, x.Sort, x, y)
	W := x.Sort.W
	zero, one := tc.BV(W, 0), tc.BV(W, 1)
	var pre *Term
	le := "bvsle"
	lt := "bvslt"
	if name == "bvudiv" {
		pre = tc.Cmp("bvult", zero, y)
		le, lt = "bvule", "bvult"
	} else {
		pre = tc.And(tc.Cmp("bvsle", zero, x), tc.Cmp("bvslt", zero, y))
	}
	lem := tc.And(
		tc.Implies(pre, tc.And(tc.Cmp(le, zero, q), tc.Cmp(le, q, x))),
		tc.Implies(tc.And(pre, tc.Cmp(lt, x, y)), tc.Eq(q, zero)),
		tc.Implies(tc.And(pre, tc.Cmp(le, y, x)), tc.Cmp(le, one, q)),
		tc.Implies(tc.Eq(y, one), tc.Eq(q, x)),
	)
	s.pc = s.pc.push(lem)
	s.abst = &absRec{uf: q, exact: exact, prev: s.abst}
	return q
}
