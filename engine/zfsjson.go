package main

// Abstract store: encoding/json + ioutil file functions as used by the sidecar's target store.
//
//   json.Marshal(v)        snapshots the object graph of v into a blob (honouring `json:"-"` on
//                          the top-level struct when it is restored)
//   ioutil.WriteFile       truncates, then writes; with faults enabled (zzv.FSFaults) it may fail
//                          before touching the file, fail after writing a proper prefix, or the
//                          process may be killed at either point (crash event)
//   ioutil.ReadFile        absent file -> error for which os.IsNotExist is true
//   json.Unmarshal         succeeds and restores the snapshot iff it is given a whole blob; a
//                          proper prefix (including the empty file) is a syntax error and leaves
//                          the destination untouched (encoding/json validates before decoding)

import (
	"go/types"
	"reflect"

	"golang.org/x/tools/go/ssa"
)

type fileContent struct {
	blob    Value // snapshot (a Value graph), nil for "no bytes"
	whole   bool
	blobTyp types.Type
}

func (s *State) fsGet(path string) (OpaqueV, bool) {
	v, ok := s.ghost["fs:"+path]
	if !ok {
		return OpaqueV{}, false
	}
	return v.(OpaqueV), true
}

func (s *State) fsPut(path string, v OpaqueV) {
	if s.ghost == nil {
		s.ghost = map[string]Value{}
	}
	s.ghost["fs:"+path] = v
}

func snapshot(v Value) Value {
	c := &cloner{memo: map[*Obj]*Obj{}}
	return c.val(v)
}

func byteSliceOf(s *State, payload OpaqueV) Value {
	arr := &ArrayV{E: []Value{payload}}
	return SliceV{O: s.newObj("array", arr), Off: 0, Len: 1, Cap: 1}
}

func payloadOf(v Value) (OpaqueV, bool) {
	sl, ok := v.(SliceV)
	if !ok || sl.O == nil || sl.Len < 1 {
		return OpaqueV{}, false
	}
	p, ok := sl.O.Val.(*ArrayV).E[sl.Off].(OpaqueV)
	return p, ok
}

func init() {
	stubs["encoding/json.Marshal"] = func(w *Worker, s *State, f *Frame, fn *ssa.Function, a []Value, d int) (Value, bool) {
		iv := a[0].(IfaceV)
		var content Value
		if p, ok := iv.V.(Ptr); ok && p.O != nil {
			content = snapshot(s.load(p))
		} else {
			content = snapshot(iv.V)
		}
		s.nOpaque++
		blob := OpaqueV{ID: s.nOpaque, Tag: "jsonblob", X: TupleV{content, w.tc.True}, T: iv.T}
		return TupleV{byteSliceOf(s, blob), IfaceV{}}, false
	}
	stubs["encoding/json.Unmarshal"] = func(w *Worker, s *State, f *Frame, fn *ssa.Function, a []Value, d int) (Value, bool) {
		blob, ok := payloadOf(a[0])
		if !ok || blob.Tag != "jsonblob" || !blob.X.(TupleV)[1].(*Term).IsTrue() {
			return w.newError(s, w.tc.Str("unexpected end of JSON input")), false
		}
		dst := a[1].(IfaceV).V.(Ptr)
		src := snapshot(blob.X.(TupleV)[0])
		// type of destination
		dt := a[1].(IfaceV).T.Underlying().(*types.Pointer).Elem()
		if st, isStruct := dt.Underlying().(*types.Struct); isStruct {
			sv, isS := src.(*StructV)
			if !isS || len(sv.F) != st.NumFields() {
				return w.newError(s, w.tc.Str("json: cannot unmarshal into struct")), false
			}
			cur := s.load(dst).(*StructV)
			for i := 0; i < st.NumFields(); i++ {
				tag := reflect.StructTag(st.Tag(i)).Get("json")
				if tag == "-" || !st.Field(i).Exported() {
					continue
				}
				cur.F[i] = sv.F[i]
			}
			s.store(dst, cur)
			return IfaceV{}, false
		}
		// maps / slices: replaced by the decoded value (destination maps in kvass are empty)
		s.store(dst, src)
		return IfaceV{}, false
	}
	stubs["os.MkdirAll"] = func(w *Worker, s *State, f *Frame, fn *ssa.Function, a []Value, d int) (Value, bool) {
		return IfaceV{}, false
	}
	stubs["io/ioutil.ReadFile"] = func(w *Worker, s *State, f *Frame, fn *ssa.Function, a []Value, d int) (Value, bool) {
		path := w.concStr(a[0], "file name")
		c, ok := s.fsGet(path)
		if !ok {
			e := w.newError(s, w.tc.Str("open "+path+": no such file or directory")).(IfaceV)
			o := e.V.(OpaqueV)
			o.Tag = "error"
			o.X = w.tc.Str("ENOENT")
			e.V = o
			return TupleV{SliceV{}, e}, false
		}
		return TupleV{byteSliceOf(s, c), IfaceV{}}, false
	}
	stubs["os.ReadFile"] = stubs["io/ioutil.ReadFile"]
	stubs["os.IsNotExist"] = func(w *Worker, s *State, f *Frame, fn *ssa.Function, a []Value, d int) (Value, bool) {
		iv := a[0].(IfaceV)
		if iv.T == nil {
			return w.tc.False, false
		}
		if o, ok := iv.V.(OpaqueV); ok {
			if t, ok := o.X.(*Term); ok && t.Const && t.S == "ENOENT" {
				return w.tc.True, false
			}
		}
		return w.tc.False, false
	}
	stubs["io/ioutil.WriteFile"] = func(w *Worker, s *State, f *Frame, fn *ssa.Function, a []Value, d int) (Value, bool) {
		path := w.concStr(a[0], "file name")
		blob, ok := payloadOf(a[1])
		if !ok {
			panic(unsupported{"WriteFile of bytes that are not a marshalled blob"})
		}
		mode := 0
		if fv, ok := s.ghost["fsnext:"+path]; ok {
			mode = w.concInt(fv, "fault mode")
			delete(s.ghost, "fsnext:"+path)
		} else if fv, ok := s.ghost["fsnext:*"]; ok { // the next write, whatever file it goes to
			mode = w.concInt(fv, "fault mode")
			delete(s.ghost, "fsnext:*")
		}
		prefix := blob
		prefix.X = TupleV{blob.X.(TupleV)[0], w.tc.False}
		switch mode {
		case 0: // success
			s.fsPut(path, blob)
			s.covers["fs.write.ok"] = true
			return IfaceV{}, false
		case 1: // error before the file is touched
			s.covers["fs.write.err.before"] = true
			return w.newError(s, w.tc.Str("open failed")), false
		case 2: // truncated, a proper prefix written, then an error (disk full)
			s.fsPut(path, prefix)
			s.covers["fs.write.err.partial"] = true
			return w.newError(s, w.tc.Str("no space left on device")), false
		case 3: // process killed before the file is touched
			s.covers["fs.kill.before"] = true
			panic(crash{"process killed"})
		default: // process killed after truncation / part-way through the write
			s.fsPut(path, prefix)
			s.covers["fs.kill.partial"] = true
			panic(crash{"process killed"})
		}
	}
	stubs["os.WriteFile"] = stubs["io/ioutil.WriteFile"]
	// os.Rename is atomic: the destination has the old or the new content, never a mixture
	stubs["os.Rename"] = func(w *Worker, s *State, f *Frame, fn *ssa.Function, a []Value, d int) (Value, bool) {
		from, to := w.concStr(a[0], "file name"), w.concStr(a[1], "file name")
		c, ok := s.fsGet(from)
		if !ok {
			return w.newError(s, w.tc.Str("rename: no such file or directory")), false
		}
		s.fsPut(to, c)
		delete(s.ghost, "fs:"+from)
		s.covers["fs.rename"] = true
		return IfaceV{}, false
	}
	intrinsics["FSSkip"] = func(w *Worker, s *State, f *Frame, fn *ssa.Function, a []Value, d int) (Value, bool) {
		return w.tc.False, false
	}
	intrinsics["FSFaultEnd"] = func(w *Worker, s *State, f *Frame, fn *ssa.Function, a []Value, d int) (Value, bool) {
		return nil, false
	}
	intrinsics["FSFaultNext"] = func(w *Worker, s *State, f *Frame, fn *ssa.Function, a []Value, d int) (Value, bool) {
		if s.ghost == nil {
			s.ghost = map[string]Value{}
		}
		s.ghost["fsnext:"+w.concStr(a[0], "file name")] = w.term(a[1])
		return nil, false
	}
	intrinsics["FSEmulate"] = func(w *Worker, s *State, f *Frame, fn *ssa.Function, a []Value, d int) (Value, bool) {
		return nil, false
	}
	intrinsics["TempDir"] = func(w *Worker, s *State, f *Frame, fn *ssa.Function, a []Value, d int) (Value, bool) {
		return w.tc.Str("store"), false
	}
	intrinsics["FSExists"] = func(w *Worker, s *State, f *Frame, fn *ssa.Function, a []Value, d int) (Value, bool) {
		_, ok := s.fsGet(w.concStr(a[0], "file name"))
		return w.tc.Bool(ok), false
	}
	intrinsics["FSWhole"] = func(w *Worker, s *State, f *Frame, fn *ssa.Function, a []Value, d int) (Value, bool) {
		c, ok := s.fsGet(w.concStr(a[0], "file name"))
		return w.tc.Bool(ok && c.X.(TupleV)[1].(*Term).IsTrue()), false
	}
	intrinsics["FSMove"] = func(w *Worker, s *State, f *Frame, fn *ssa.Function, a []Value, d int) (Value, bool) {
		// test set-up helper: rename a file inside the abstract store
		from, to := w.concStr(a[0], "file name"), w.concStr(a[1], "file name")
		if c, ok := s.fsGet(from); ok {
			s.fsPut(to, c)
			delete(s.ghost, "fs:"+from)
		}
		return nil, false
	}
}
