package main

// Abstract store: encoding/json + ioutil file functions as used by the sidecar's target store.
//
//   json.Marshal(v)        snapshots the object graph of v into a blob (honouring `json:"-"` on
//                          the top-level struct when it is restored)
//   ioutil.WriteFile       truncates, then writes; with faults enabled (zzv.FSFaults) it may fail
//                          before touching the file, fail after writing a proper prefix, or the
//                          process may be killed at either point (crash event)
//   ioutil.ReadFile        absent file -> error for which os.IsNotExist is true
//   json.Unmarshal         succeeds and restores the snapshot iff it is given a whole blob; a
//                          proper prefix (including the empty file) is a syntax error and leaves
//                          the destination untouched (encoding/json validates before decoding)

import (
	"fmt"
	"go/types"
	"reflect"

	"golang.org/x/tools/go/ssa"
)

type fileContent struct {
	blob    Value // snapshot (a Value graph), nil for "no bytes"
	whole   bool
	blobTyp types.Type
}

func (s *State) fsGet(path string) (OpaqueV, bool) {
	v, ok := s.ghost["fs:"+path]
	if !ok {
		return OpaqueV{}, false
	}
	return v.(OpaqueV), true
}

func (s *State) fsPut(path string, v OpaqueV) {
	if s.ghost == nil {
		s.ghost = map[string]Value{}
	}
	s.ghost["fs:"+path] = v
}

func snapshot(v Value) Value {
	c := &cloner{memo: map[*Obj]*Obj{}}
	return c.val(v)
}

func byteSliceOf(s *State, payload OpaqueV) Value {
	arr := &ArrayV{E: []Value{payload}}
	return SliceV{O: s.newObj("array", arr), Off: 0, Len: 1, Cap: 1}
}

func payloadOf(v Value) (OpaqueV, bool) {
	sl, ok := v.(SliceV)
	if !ok || sl.O == nil || sl.Len < 1 {
		return OpaqueV{}, false
	}
	p, ok := sl.O.Val.(*ArrayV).E[sl.Off].(OpaqueV)
	return p, ok
}

// countElems weighs a marshalled value: 1000 per list element plus the lengths of its concrete
// strings - the store's length grows with the number of targets it holds and with their texts.
func countElems(s *State, v Value, depth int) int {
	if depth > 8 {
		return 0
	}
	n := 0
	switch x := v.(type) {
	case *StructV:
		if x != nil {
			for _, f := range x.F {
				n += countElems(s, f, depth+1)
			}
		}
	case MapV:
		if x.O != nil {
			for _, e := range x.O.Entries {
				n += countElems(s, e.V, depth+1)
			}
		}
	case SliceV:
		if x.O != nil {
			arr := x.O.Val.(*ArrayV)
			for i := 0; i < x.Len; i++ {
				n += 1000
				n += countElems(s, arr.E[x.Off+i], depth+1)
			}
		}
	case *Term:
		if x.Const && x.Sort.K == SStr {
			n += len(x.S)
		}
	case Ptr:
		if x.O != nil {
			n += countElems(s, s.load(x), depth+1)
		}
	}
	return n
}

// blobLen gives a marshalled document its byte length: a fresh symbolic value in [64, 2^20] that
// is strictly larger (by more than one byte) than the length of every earlier document with
// fewer list elements and strictly smaller than that of every earlier one with more; documents
// with the same number of elements are not related.
func (w *Worker) blobLen(s *State, content Value) *Term {
	tc := w.tc
	n := countElems(s, content, 0)
	if s.ghost == nil {
		s.ghost = map[string]Value{}
	}
	prev, _ := s.ghost["fs.lens"].(TupleV)
	l := w.input(s, "fs.len."+fmt.Sprint(len(prev)/2), bv(64))
	cs := []*Term{tc.Cmp("bvsle", tc.BV(64, 64), l), tc.Cmp("bvsle", l, tc.BV(64, 1<<20))}
	for i := 0; i+1 < len(prev); i += 2 {
		pn, pl := int(prev[i].(*Term).U), prev[i+1].(*Term)
		if pn < n {
			cs = append(cs, tc.Cmp("bvslt", tc.Add(pl, tc.BV(64, 1)), l))
		} else if pn > n {
			cs = append(cs, tc.Cmp("bvslt", tc.Add(l, tc.BV(64, 1)), pl))
		}
	}
	c := tc.And(cs...)
	if c.IsFalse() {
		panic(pathDead{})
	}
	if !c.IsTrue() {
		s.pc = s.pc.push(c)
	}
	s.ghost["fs.lens"] = append(append(TupleV(nil), prev...), tc.BV(64, uint64(n)), l)
	return l
}

func fcLen(w *Worker, c OpaqueV) *Term {
	t := c.X.(TupleV)
	if len(t) > 2 {
		return t[2].(*Term)
	}
	return w.tc.BV(64, 0)
}

// cutLen is the number of bytes of blob that reach the file before a write breaks off:
// mode 5 = all but the last byte, otherwise a short prefix (0..23 bytes, what the native fault
// emulation produces).
func (w *Worker) cutLen(s *State, blob OpaqueV, mode int) *Term {
	tc := w.tc
	l := fcLen(w, blob)
	if mode == 5 {
		return tc.Sub(l, tc.BV(64, 1))
	}
	if mode != 2 && mode != 4 {
		return l
	}
	// the native fault emulation breaks the write off after `fault.offset` (< 24) bytes
	cut := w.input(s, "fault.offset", bv(64))
	c := tc.And(tc.Cmp("bvsle", tc.BV(64, 0), cut), tc.Cmp("bvslt", cut, tc.BV(64, 24)))
	if !c.IsTrue() {
		s.pc = s.pc.push(c)
	}
	return cut
}

func (s *State) fsFaultMode(w *Worker, path string, consume func(mode int) bool) int {
	for _, k := range []string{"fsnext:" + path, "fsnext:*"} {
		if fv, ok := s.ghost[k]; ok {
			mode := w.concInt(fv, "fault mode")
			if consume(mode) {
				delete(s.ghost, k)
				return mode
			}
			return 0
		}
	}
	return 0
}

const (
	oCREATE = 0x40
	oTRUNC  = 0x200
	oAPPEND = 0x400
)

func emptyFile(w *Worker, s *State) OpaqueV {
	s.nOpaque++
	return OpaqueV{ID: s.nOpaque, Tag: "jsonblob", X: TupleV{nil, w.tc.False, w.tc.BV(64, 0)}}
}

func init() {
	// os.OpenFile / (*os.File).Write / Sync / Close: one Write of a marshalled document per handle,
	// at offset 0. Without O_TRUNC the bytes of a longer existing file survive behind the new
	// document (which then no longer parses).
	stubs["os.OpenFile"] = func(w *Worker, s *State, f *Frame, fn *ssa.Function, a []Value, d int) (Value, bool) {
		path := w.concStr(a[0], "file name")
		flags := w.concInt(a[1], "open flags")
		if flags&oAPPEND != 0 {
			panic(unsupported{"os.OpenFile with O_APPEND"})
		}
		mode := s.fsFaultMode(w, path, func(m int) bool { return m == 1 || m == 3 })
		if mode == 1 {
			s.covers["fs.write.err.before"] = true
			return TupleV{Ptr{}, w.newError(s, w.tc.Str("open failed"))}, false
		}
		if mode == 3 {
			s.covers["fs.kill.before"] = true
			panic(crash{"process killed"})
		}
		_, exists := s.fsGet(path)
		if !exists && flags&oCREATE == 0 {
			e := w.newError(s, w.tc.Str("open "+path+": no such file or directory")).(IfaceV)
			o := e.V.(OpaqueV)
			o.X = w.tc.Str("ENOENT")
			e.V = o
			return TupleV{Ptr{}, e}, false
		}
		if !exists || flags&oTRUNC != 0 {
			s.fsPut(path, emptyFile(w, s))
		}
		s.nOpaque++
		h := s.newObj("cell", OpaqueV{ID: s.nOpaque, Tag: "osfile", X: TupleV{w.tc.Str(path), w.tc.BV(64, 0)}})
		return TupleV{Ptr{O: h}, IfaceV{}}, false
	}
	stubs["os.Create"] = func(w *Worker, s *State, f *Frame, fn *ssa.Function, a []Value, d int) (Value, bool) {
		return stubs["os.OpenFile"](w, s, f, fn, []Value{a[0], w.tc.BV(64, uint64(2|oCREATE|oTRUNC)), w.tc.BV(32, 0666)}, d)
	}
	fileOf := func(w *Worker, s *State, v Value) (*Obj, string, int) {
		p, ok := v.(Ptr)
		if !ok || p.O == nil {
			panic(crash{"nil *os.File"})
		}
		op, ok := p.O.Val.(OpaqueV)
		if !ok || op.Tag != "osfile" {
			panic(unsupported{"file handle that was not opened by os.OpenFile"})
		}
		t := op.X.(TupleV)
		return p.O, t[0].(*Term).S, int(t[1].(*Term).U)
	}
	stubs["(*os.File).Write"] = func(w *Worker, s *State, f *Frame, fn *ssa.Function, a []Value, d int) (Value, bool) {
		h, path, writes := fileOf(w, s, a[0])
		blob, ok := payloadOf(a[1])
		if !ok {
			panic(unsupported{"Write of bytes that are not a marshalled blob"})
		}
		if writes > 0 {
			panic(unsupported{"second Write on one file handle"})
		}
		op := h.Val.(OpaqueV)
		op.X = TupleV{w.tc.Str(path), w.tc.BV(64, 1)}
		h.Val = op
		tc := w.tc
		old, exists := s.fsGet(path)
		if !exists {
			old = emptyFile(w, s) // unlinked meanwhile: not modelled further
		}
		oldLen, newLen := fcLen(w, old), fcLen(w, blob)
		mode := s.fsFaultMode(w, path, func(m int) bool { return m == 2 || m == 4 || m == 5 })
		if mode == 0 {
			if w.branch(s, tc.Cmp("bvslt", newLen, oldLen)) {
				// the tail of the longer old content stays behind the new document
				s.covers["fs.write.stale.tail"] = true
				s.fsPut(path, OpaqueV{ID: blob.ID, Tag: "jsonblob", T: blob.T, X: TupleV{blob.X.(TupleV)[0], tc.False, oldLen}})
			} else {
				s.fsPut(path, blob)
			}
			s.covers["fs.write.ok"] = true
			return TupleV{newLen, IfaceV{}}, false
		}
		cut := w.cutLen(s, blob, mode)
		resLen := cut
		if w.branch(s, tc.Cmp("bvslt", cut, oldLen)) {
			resLen = oldLen
		}
		s.fsPut(path, OpaqueV{ID: blob.ID, Tag: "jsonblob", T: blob.T, X: TupleV{blob.X.(TupleV)[0], tc.False, resLen}})
		if mode == 2 {
			s.covers["fs.write.err.partial"] = true
			return TupleV{cut, w.newError(s, tc.Str("no space left on device"))}, false
		}
		s.covers["fs.kill.partial"] = true
		panic(crash{"process killed"})
	}
	stubs["(*os.File).Sync"] = func(w *Worker, s *State, f *Frame, fn *ssa.Function, a []Value, d int) (Value, bool) {
		fileOf(w, s, a[0])
		return IfaceV{}, false
	}
	stubs["(*os.File).Close"] = stubs["(*os.File).Sync"]
	stubs["os.Remove"] = func(w *Worker, s *State, f *Frame, fn *ssa.Function, a []Value, d int) (Value, bool) {
		path := w.concStr(a[0], "file name")
		if _, ok := s.fsGet(path); !ok {
			return w.newError(s, w.tc.Str("remove: no such file or directory")), false
		}
		delete(s.ghost, "fs:"+path)
		return IfaceV{}, false
	}
}

func init() {
	stubs["encoding/json.Marshal"] = func(w *Worker, s *State, f *Frame, fn *ssa.Function, a []Value, d int) (Value, bool) {
		iv := a[0].(IfaceV)
		var content Value
		if p, ok := iv.V.(Ptr); ok && p.O != nil {
			content = snapshot(s.load(p))
		} else {
			content = snapshot(iv.V)
		}
		s.nOpaque++
		blob := OpaqueV{ID: s.nOpaque, Tag: "jsonblob", X: TupleV{content, w.tc.True, w.blobLen(s, content)}, T: iv.T}
		return TupleV{byteSliceOf(s, blob), IfaceV{}}, false
	}
	stubs["encoding/json.Unmarshal"] = func(w *Worker, s *State, f *Frame, fn *ssa.Function, a []Value, d int) (Value, bool) {
		blob, ok := payloadOf(a[0])
		if !ok || blob.Tag != "jsonblob" || !blob.X.(TupleV)[1].(*Term).IsTrue() {
			return w.newError(s, w.tc.Str("unexpected end of JSON input")), false
		}
		dst := a[1].(IfaceV).V.(Ptr)
		src := snapshot(blob.X.(TupleV)[0])
		// type of destination
		dt := a[1].(IfaceV).T.Underlying().(*types.Pointer).Elem()
		if st, isStruct := dt.Underlying().(*types.Struct); isStruct {
			sv, isS := src.(*StructV)
			if !isS || len(sv.F) != st.NumFields() {
				return w.newError(s, w.tc.Str("json: cannot unmarshal into struct")), false
			}
			cur := s.load(dst).(*StructV)
			for i := 0; i < st.NumFields(); i++ {
				tag := reflect.StructTag(st.Tag(i)).Get("json")
				if tag == "-" || !st.Field(i).Exported() {
					continue
				}
				cur.F[i] = sv.F[i]
			}
			s.store(dst, cur)
			return IfaceV{}, false
		}
		// maps / slices: replaced by the decoded value (destination maps in kvass are empty)
		s.store(dst, src)
		return IfaceV{}, false
	}
	stubs["os.MkdirAll"] = func(w *Worker, s *State, f *Frame, fn *ssa.Function, a []Value, d int) (Value, bool) {
		return IfaceV{}, false
	}
	stubs["io/ioutil.ReadFile"] = func(w *Worker, s *State, f *Frame, fn *ssa.Function, a []Value, d int) (Value, bool) {
		path := w.concStr(a[0], "file name")
		c, ok := s.fsGet(path)
		if !ok {
			e := w.newError(s, w.tc.Str("open "+path+": no such file or directory")).(IfaceV)
			o := e.V.(OpaqueV)
			o.Tag = "error"
			o.X = w.tc.Str("ENOENT")
			e.V = o
			return TupleV{SliceV{}, e}, false
		}
		return TupleV{byteSliceOf(s, c), IfaceV{}}, false
	}
	stubs["os.ReadFile"] = stubs["io/ioutil.ReadFile"]
	stubs["os.IsNotExist"] = func(w *Worker, s *State, f *Frame, fn *ssa.Function, a []Value, d int) (Value, bool) {
		iv := a[0].(IfaceV)
		if iv.T == nil {
			return w.tc.False, false
		}
		if o, ok := iv.V.(OpaqueV); ok {
			if t, ok := o.X.(*Term); ok && t.Const && t.S == "ENOENT" {
				return w.tc.True, false
			}
		}
		return w.tc.False, false
	}
	stubs["io/ioutil.WriteFile"] = func(w *Worker, s *State, f *Frame, fn *ssa.Function, a []Value, d int) (Value, bool) {
		path := w.concStr(a[0], "file name")
		blob, ok := payloadOf(a[1])
		if !ok {
			panic(unsupported{"WriteFile of bytes that are not a marshalled blob"})
		}
		mode := 0
		if fv, ok := s.ghost["fsnext:"+path]; ok {
			mode = w.concInt(fv, "fault mode")
			delete(s.ghost, "fsnext:"+path)
		} else if fv, ok := s.ghost["fsnext:*"]; ok { // the next write, whatever file it goes to
			mode = w.concInt(fv, "fault mode")
			delete(s.ghost, "fsnext:*")
		}
		prefix := blob
		prefix.X = TupleV{blob.X.(TupleV)[0], w.tc.False, w.cutLen(s, blob, mode)}
		switch mode {
		case 0: // success
			s.fsPut(path, blob)
			s.covers["fs.write.ok"] = true
			return IfaceV{}, false
		case 1: // error before the file is touched
			s.covers["fs.write.err.before"] = true
			return w.newError(s, w.tc.Str("open failed")), false
		case 2: // truncated, a proper prefix written, then an error (disk full)
			s.fsPut(path, prefix)
			s.covers["fs.write.err.partial"] = true
			return w.newError(s, w.tc.Str("no space left on device")), false
		case 3: // process killed before the file is touched
			s.covers["fs.kill.before"] = true
			panic(crash{"process killed"})
		default: // process killed after truncation / part-way through the write (5: one byte short)
			s.fsPut(path, prefix)
			s.covers["fs.kill.partial"] = true
			panic(crash{"process killed"})
		}
	}
	stubs["os.WriteFile"] = stubs["io/ioutil.WriteFile"]
	// os.Rename is atomic: the destination has the old or the new content, never a mixture
	stubs["os.Rename"] = func(w *Worker, s *State, f *Frame, fn *ssa.Function, a []Value, d int) (Value, bool) {
		from, to := w.concStr(a[0], "file name"), w.concStr(a[1], "file name")
		c, ok := s.fsGet(from)
		if !ok {
			return w.newError(s, w.tc.Str("rename: no such file or directory")), false
		}
		s.fsPut(to, c)
		delete(s.ghost, "fs:"+from)
		s.covers["fs.rename"] = true
		return IfaceV{}, false
	}
	intrinsics["FSSkip"] = func(w *Worker, s *State, f *Frame, fn *ssa.Function, a []Value, d int) (Value, bool) {
		return w.tc.False, false
	}
	intrinsics["FSFaultEnd"] = func(w *Worker, s *State, f *Frame, fn *ssa.Function, a []Value, d int) (Value, bool) {
		return nil, false
	}
	intrinsics["FSFaultNext"] = func(w *Worker, s *State, f *Frame, fn *ssa.Function, a []Value, d int) (Value, bool) {
		if s.ghost == nil {
			s.ghost = map[string]Value{}
		}
		s.ghost["fsnext:"+w.concStr(a[0], "file name")] = w.term(a[1])
		return nil, false
	}
	intrinsics["FSEmulate"] = func(w *Worker, s *State, f *Frame, fn *ssa.Function, a []Value, d int) (Value, bool) {
		return nil, false
	}
	intrinsics["TempDir"] = func(w *Worker, s *State, f *Frame, fn *ssa.Function, a []Value, d int) (Value, bool) {
		return w.tc.Str("store"), false
	}
	intrinsics["FSExists"] = func(w *Worker, s *State, f *Frame, fn *ssa.Function, a []Value, d int) (Value, bool) {
		_, ok := s.fsGet(w.concStr(a[0], "file name"))
		return w.tc.Bool(ok), false
	}
	intrinsics["FSWhole"] = func(w *Worker, s *State, f *Frame, fn *ssa.Function, a []Value, d int) (Value, bool) {
		c, ok := s.fsGet(w.concStr(a[0], "file name"))
		return w.tc.Bool(ok && c.X.(TupleV)[1].(*Term).IsTrue()), false
	}
	intrinsics["FSMove"] = func(w *Worker, s *State, f *Frame, fn *ssa.Function, a []Value, d int) (Value, bool) {
		// test set-up helper: rename a file inside the abstract store
		from, to := w.concStr(a[0], "file name"), w.concStr(a[1], "file name")
		if c, ok := s.fsGet(from); ok {
			s.fsPut(to, c)
			delete(s.ghost, "fs:"+from)
		}
		return nil, false
	}
}
