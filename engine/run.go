package main

import (
	"fmt"
	"go/types"
	"runtime/debug"
	"sort"
	"strings"
	"sync"
	"time"

	"golang.org/x/tools/go/ssa"
)

func typesPointer(t types.Type) types.Type { return types.NewPointer(t) }

// RunSpec describes one harness exploration.
type RunSpec struct {
	Entry    string // "pkg/path.Func"
	Args     []int
	Unwind   int
	Workers  int
	Split    int // Choose depth exported as separate jobs
	Timeout  time.Duration
	SolverMs int
	XCheck   bool
	XCheck2  bool
	Fuse     bool
	MergeAt  []string
	Subst    map[string]string
	Known    map[string]bool
	Cosim    int
	Concrete map[string]interface{} // concrete-input mode (co-simulation trace sets)
	MaxViol  int
	Props    map[string]bool
	AssertPrefixes []string // only assertions with these label prefixes are evaluated (empty: all)
	ForkStats bool
}

type RunResult struct {
	Spec     RunSpec
	Stats    *Stats
	Traces   [][]string // concrete mode: all traces
	Wall     time.Duration
	Workers  int
}

type job struct{ trail []int }

func (p *Program) Run(spec RunSpec) (*RunResult, error) {
	entry := p.funcByName(spec.Entry)
	if entry == nil {
		return nil, fmt.Errorf("HARNESS-BUILD-FAILURE: entry %s not found", spec.Entry)
	}
	if spec.Workers <= 0 {
		spec.Workers = 1
	}
	if spec.Unwind <= 0 {
		spec.Unwind = 12
	}
	if spec.SolverMs <= 0 {
		spec.SolverMs = 20000
	}
	if spec.MaxViol <= 0 {
		spec.MaxViol = 4
	}
	t0 := time.Now()
	var deadline time.Time
	if spec.Timeout > 0 {
		deadline = t0.Add(spec.Timeout)
	}
	mergeAt := map[string]bool{}
	for _, m := range spec.MergeAt {
		mergeAt[m] = true
	}
	if len(mergeAt) == 0 {
		mergeAt = nil
	}

	var mu sync.Mutex
	cond := sync.NewCond(&mu)
	var queue []job
	pending := 1
	idle := 0
	queue = append(queue, job{})
	total := newStats()
	var traces [][]string
	var wg sync.WaitGroup
	var firstPanic interface{}

	for i := 0; i < spec.Workers; i++ {
		wg.Add(1)
		go func() {
			defer wg.Done()
			var w *Worker
			defer func() {
				if r := recover(); r != nil {
					mu.Lock()
					if firstPanic == nil {
						loc := ""
						if w != nil && w.cur != nil {
							loc = w.where(w.cur)
						}
						firstPanic = fmt.Sprintf("%v\n  at %s\n%s", r, loc, debug.Stack())
					}
					pending = 0
					cond.Broadcast()
					mu.Unlock()
				}
				if w != nil {
					w.Close()
					mu.Lock()
					mergeStats(total, w.st)
					traces = append(traces, w.traces...)
					mu.Unlock()
				}
			}()
			for {
				mu.Lock()
				idle++
				for len(queue) == 0 && pending > 0 {
					cond.Wait()
				}
				idle--
				if pending == 0 {
					mu.Unlock()
					return
				}
				j := queue[len(queue)-1]
				queue = queue[:len(queue)-1]
				mu.Unlock()

				if w == nil {
					cfg := &Config{Unwind: spec.Unwind, TimeoutMs: spec.SolverMs, XCheck: spec.XCheck, XCheck2: spec.XCheck2,
						Subst: spec.Subst, KnownIDs: spec.Known, MaxViol: spec.MaxViol, Cosim: spec.Cosim, Fuse: spec.Fuse,
						Harness: spec.Entry + fmt.Sprint(spec.Args), MergeAt: mergeAt, Deadline: deadline, concrete: spec.Concrete,
						split: spec.Split, Props: spec.Props, AssertPrefixes: spec.AssertPrefixes}
					w = NewWorker(p, cfg)
					if spec.ForkStats {
						w.st.ForkSites = map[string]int{}
					}
					w.export = func(trail []int) {
						mu.Lock()
						queue = append(queue, job{trail})
						pending++
						cond.Signal()
						mu.Unlock()
					}
					w.idle = func() bool {
						mu.Lock()
						defer mu.Unlock()
						return idle > 0 && len(queue) == 0
					}
				}
				s := w.initialState(entry, spec.Args)
				s.forced = j.trail
				w.Explore(s)

				mu.Lock()
				pending--
				if pending == 0 {
					cond.Broadcast()
				}
				mu.Unlock()
			}
		}()
	}
	wg.Wait()
	if firstPanic != nil {
		return nil, fmt.Errorf("engine panic: %v", firstPanic)
	}
	return &RunResult{Spec: spec, Stats: total, Traces: traces, Wall: time.Since(t0), Workers: spec.Workers}, nil
}

func (w *Worker) initialState(fn *ssa.Function, args []int) *State {
	s := &State{globals: map[*ssa.Global]*Obj{}, covers: map[string]bool{}, edges: map[string]bool{}, inputSet: map[int]bool{},
		locks: map[string]int{}, status: "running"}
	var av []Value
	for _, a := range args {
		av = append(av, w.tc.BV(64, uint64(int64(a))))
	}
	s.pushFrame(fn, av, nil, -1)
	w.st.Funcs[fn.String()] = true
	// package initialisers of the harness package run first (LIFO: push after the entry frame)
	if initFn := fn.Pkg.Func("init"); initFn != nil && len(initFn.Blocks) > 0 {
		fr := s.pushFrame(initFn, nil, nil, -1)
		fr.discard = true
		fr.isInit = true
	}
	return s
}

func mergeStats(t, s *Stats) {
	t.Paths += s.Paths
	t.Dead += s.Dead
	t.Crashed += s.Crashed
	t.Forks += s.Forks
	t.Steps += s.Steps
	t.FeasQueries += s.FeasQueries
	t.PropQueries += s.PropQueries
	t.XQueries += s.XQueries
	t.TrivialAsserts += s.TrivialAsserts
	t.NontrivialAsserts += s.NontrivialAsserts
	t.Unknown += s.Unknown
	t.OneShot += s.OneShot
	t.XUnknown += s.XUnknown
	for i, v := range s.Hist {
		t.Hist[i] += v
	}
	t.HistT[0] += s.HistT[0]
	t.HistT[1] += s.HistT[1]
	t.Merged += s.Merged
	t.SolverTime += s.SolverTime
	for k, v := range s.MaxUnwind {
		if v > t.MaxUnwind[k] {
			t.MaxUnwind[k] = v
		}
	}
	for k := range s.Funcs {
		t.Funcs[k] = true
	}
	for k, v := range s.Stubs {
		t.Stubs[k] += v
	}
	for k, v := range s.Covers {
		t.Covers[k] += v
	}
	for k, v := range s.AssertLabels {
		t.AssertLabels[k] += v
	}
	for k, v := range s.AssertUnsat {
		t.AssertUnsat[k] += v
	}
	for k, v := range s.ForkSites {
		if t.ForkSites == nil {
			t.ForkSites = map[string]int{}
		}
		t.ForkSites[k] += v
	}
	for k := range s.PropQueryKeys {
		t.PropQueryKeys[k] = true
	}
	t.Inconclusive = append(t.Inconclusive, s.Inconclusive...)
	t.Violations = append(t.Violations, s.Violations...)
	for k, v := range s.Known {
		if _, ok := t.Known[k]; !ok {
			t.Known[k] = v
		}
	}
	if len(t.Samples) < 8 {
		t.Samples = append(t.Samples, s.Samples...)
	}
	t.CosimCases = append(t.CosimCases, s.CosimCases...)
}

func (r *RunResult) Summary() string {
	st := r.Stats
	var sb strings.Builder
	fmt.Fprintf(&sb, "%s%v: paths=%d dead=%d crashed=%d forks=%d merged=%d steps=%d feasQ=%d propQ=%d xQ=%d asserts(trivial=%d, solver=%d) solver=%.1fs wall=%.1fs\n",
		r.Spec.Entry, r.Spec.Args, st.Paths, st.Dead, st.Crashed, st.Forks, st.Merged, st.Steps, st.FeasQueries, st.PropQueries, st.XQueries,
		st.TrivialAsserts, st.NontrivialAsserts, st.SolverTime.Seconds(), r.Wall.Seconds())
	fmt.Fprintf(&sb, "  primary-solver query times: <5ms:%d <50ms:%d <500ms:%d <1.4s:%d >=1.4s:%d  (fast total %.1fs, slow total %.1fs) one-shot=%d\n", st.Hist[0], st.Hist[1], st.Hist[2], st.Hist[3], st.Hist[4], st.HistT[0].Seconds(), st.HistT[1].Seconds(), st.OneShot)
	var cv []string
	for k, v := range st.Covers {
		cv = append(cv, fmt.Sprintf("%s=%d", k, v))
	}
	sort.Strings(cv)
	fmt.Fprintf(&sb, "  covers: %s\n", strings.Join(cv, " "))
	var al []string
	for k, v := range st.AssertLabels {
		al = append(al, fmt.Sprintf("%s=%d(unsat %d)", k, v, st.AssertUnsat[k]))
	}
	sort.Strings(al)
	fmt.Fprintf(&sb, "  asserts: %s\n", strings.Join(al, " "))
	for _, v := range st.Violations {
		fmt.Fprintf(&sb, "  VIOLATION-CANDIDATE %s %s inputs=%v choices=%v\n", v.Label, v.Detail, v.Inputs, summarizeChoices(v.Choices))
	}
	for k, v := range st.Known {
		fmt.Fprintf(&sb, "  KNOWN %s inputs=%v\n", k, v.Inputs)
	}
	if st.ForkSites != nil {
		var fs []string
		for k, v := range st.ForkSites {
			fs = append(fs, fmt.Sprintf("%6d %s", v, k))
		}
		sort.Sort(sort.Reverse(sort.StringSlice(fs)))
		if len(fs) > 25 {
			fs = fs[:25]
		}
		sb.WriteString("  fork sites:\n    " + strings.Join(fs, "\n    ") + "\n")
	}
	seen := map[string]int{}
	for _, x := range st.Inconclusive {
		seen[x]++
	}
	for k, v := range seen {
		fmt.Fprintf(&sb, "  INCONCLUSIVE x%d %s\n", v, k)
	}
	return sb.String()
}
