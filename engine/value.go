package main

import (
	"fmt"
	"go/types"
	"sort"
	"strings"

	"golang.org/x/tools/go/ssa"
)

// Value is one of:
//   *Term            scalar (bool, integers, float64, string)
//   Ptr              pointer (O == nil: nil pointer)
//   *StructV         struct by value
//   *ArrayV          array by value
//   SliceV           slice header (O == nil: nil slice)
//   MapV             map reference (O == nil: nil map)
//   IfaceV           interface value (T == nil: nil interface)
//   *ClosureV        function value (nil pointer: nil func)
//   TupleV           multiple results
//   ChanV            channel reference
//   OpaqueV          value of an external type the engine does not look into
//   IterV            map iterator
type Value interface{}

type Obj struct {
	ID   int
	Kind string // "cell", "array", "map", "iter", "chan"
	Val  Value  // cell: the content; array: *ArrayV
	// map
	Entries []MapEntry
	// iter
	IterMap  *Obj
	IterSnap []Value // keys present when the range started
	IterSeen []Value
	// chan
	Queue []Value
	Cap   int
	Closed bool
	Type  types.Type
	// Shared: storage of a global of a package whose code is not executed. It is never written
	// (a write is reported as unsupported), so all states share it instead of copying it.
	Shared bool
}

type MapEntry struct {
	K, V Value
}

type Ptr struct {
	O    *Obj
	Path []int
}

type StructV struct{ F []Value }
type ArrayV struct{ E []Value }
type SliceV struct {
	O             *Obj
	Off, Len, Cap int
}
type MapV struct{ O *Obj }
type IfaceV struct {
	T types.Type
	V Value
}
type ClosureV struct {
	Fn   *ssa.Function
	Bind []Value
	// Native marks an engine-provided function value (e.g. time.Now as a value)
	Native string
}
type TupleV []Value
type ChanV struct{ O *Obj }
type IterV struct{ O *Obj }
type OpaqueV struct {
	T   types.Type
	ID  int
	Tag string
	X   Value // optional payload (e.g. error message atom)
}

// ---------- deep copy of a whole state ----------

type cloner struct{ memo map[*Obj]*Obj }

func (c *cloner) obj(o *Obj) *Obj {
	if o == nil {
		return nil
	}
	if n, ok := c.memo[o]; ok {
		return n
	}
	if o.Shared {
		c.memo[o] = o
		return o
	}
	n := &Obj{ID: o.ID, Kind: o.Kind, Cap: o.Cap, Type: o.Type, Closed: o.Closed}
	c.memo[o] = n
	n.Val = c.val(o.Val)
	if o.Entries != nil {
		n.Entries = make([]MapEntry, len(o.Entries))
		for i, e := range o.Entries {
			n.Entries[i] = MapEntry{c.val(e.K), c.val(e.V)}
		}
	}
	n.IterMap = c.obj(o.IterMap)
	n.IterSnap = c.vals(o.IterSnap)
	n.IterSeen = c.vals(o.IterSeen)
	n.Queue = c.vals(o.Queue)
	return n
}

func (c *cloner) vals(vs []Value) []Value {
	if vs == nil {
		return nil
	}
	out := make([]Value, len(vs))
	for i, v := range vs {
		out[i] = c.val(v)
	}
	return out
}

func (c *cloner) val(v Value) Value {
	switch x := v.(type) {
	case nil:
		return nil
	case *Term:
		return x
	case Ptr:
		return Ptr{c.obj(x.O), x.Path}
	case *StructV:
		if x == nil {
			return x
		}
		return &StructV{c.vals(x.F)}
	case *ArrayV:
		if x == nil {
			return x
		}
		return &ArrayV{c.vals(x.E)}
	case SliceV:
		return SliceV{c.obj(x.O), x.Off, x.Len, x.Cap}
	case MapV:
		return MapV{c.obj(x.O)}
	case IfaceV:
		return IfaceV{x.T, c.val(x.V)}
	case *ClosureV:
		if x == nil {
			return x
		}
		return &ClosureV{x.Fn, c.vals(x.Bind), x.Native}
	case TupleV:
		return TupleV(c.vals(x))
	case ChanV:
		return ChanV{c.obj(x.O)}
	case IterV:
		return IterV{c.obj(x.O)}
	case OpaqueV:
		return OpaqueV{x.T, x.ID, x.Tag, c.val(x.X)}
	case *ssa.Function, *ssa.Builtin:
		return x
	}
	panic(fmt.Sprintf("clone: unknown value %T", v))
}

// copyAgg copies struct/array aggregates (value semantics); everything else is shared.
func copyAgg(v Value) Value {
	switch x := v.(type) {
	case *StructV:
		if x == nil {
			return x
		}
		n := &StructV{make([]Value, len(x.F))}
		for i, f := range x.F {
			n.F[i] = copyAgg(f)
		}
		return n
	case *ArrayV:
		if x == nil {
			return x
		}
		n := &ArrayV{make([]Value, len(x.E))}
		for i, f := range x.E {
			n.E[i] = copyAgg(f)
		}
		return n
	}
	return v
}

// ---------- zero values ----------

func isUnsigned(t types.Type) bool {
	b, ok := t.Underlying().(*types.Basic)
	return ok && b.Info()&types.IsUnsigned != 0
}

func basicSort(b *types.Basic) (Sort, bool) {
	switch b.Kind() {
	case types.Bool, types.UntypedBool:
		return sortBool, true
	case types.Int, types.Int64, types.Uint, types.Uint64, types.Uintptr, types.UntypedInt:
		return bv(64), true
	case types.Int32, types.Uint32, types.UntypedRune:
		return bv(32), true
	case types.Int16, types.Uint16:
		return bv(16), true
	case types.Int8, types.Uint8:
		return bv(8), true
	case types.Float64, types.UntypedFloat:
		return sortFP, true
	case types.String, types.UntypedString:
		return sortStr, true
	}
	return Sort{}, false
}

func typeSort(t types.Type) (Sort, bool) {
	b, ok := t.Underlying().(*types.Basic)
	if !ok {
		return Sort{}, false
	}
	return basicSort(b)
}

func (w *Worker) zero(t types.Type) Value {
	switch u := t.Underlying().(type) {
	case *types.Basic:
		s, ok := basicSort(u)
		if !ok {
			if u.Kind() == types.UnsafePointer {
				return Ptr{}
			}
			if u.Kind() == types.UntypedNil {
				return nil
			}
			if u.Kind() == types.Float32 {
				return w.tc.FP(0)
			}
			panic(unsupported{"zero value of basic type " + u.String()})
		}
		switch s.K {
		case SBool:
			return w.tc.False
		case SBV:
			return w.tc.BV(s.W, 0)
		case SFP:
			return w.tc.FP(0)
		case SStr:
			return w.tc.Str("")
		}
	case *types.Pointer:
		return Ptr{}
	case *types.Struct:
		s := &StructV{make([]Value, u.NumFields())}
		for i := range s.F {
			s.F[i] = w.zero(u.Field(i).Type())
		}
		return s
	case *types.Array:
		a := &ArrayV{make([]Value, int(u.Len()))}
		for i := range a.E {
			a.E[i] = w.zero(u.Elem())
		}
		return a
	case *types.Slice:
		return SliceV{}
	case *types.Map:
		return MapV{}
	case *types.Interface:
		return IfaceV{}
	case *types.Signature:
		return (*ClosureV)(nil)
	case *types.Chan:
		return ChanV{}
	case *types.Tuple:
		t := make(TupleV, u.Len())
		for i := range t {
			t[i] = w.zero(u.At(i).Type())
		}
		return t
	}
	panic(unsupported{"zero value of type " + t.String()})
}

// ---------- memory access ----------

func navigate(root Value, path []int) Value {
	v := root
	for _, i := range path {
		switch x := v.(type) {
		case *StructV:
			v = x.F[i]
		case *ArrayV:
			v = x.E[i]
		default:
			panic(fmt.Sprintf("navigate: %T is not an aggregate (path %v)", v, path))
		}
	}
	return v
}

func (s *State) load(p Ptr) Value {
	if p.O == nil {
		panic(crash{"nil pointer dereference"})
	}
	return copyAgg(navigate(p.O.Val, p.Path))
}

func (s *State) store(p Ptr, v Value) {
	if p.O == nil {
		panic(crash{"nil pointer dereference (store)"})
	}
	if p.O.Shared {
		panic(unsupported{"write to a global of a package whose code is not executed"})
	}
	v = copyAgg(v)
	if len(p.Path) == 0 {
		p.O.Val = v
		return
	}
	parent := navigate(p.O.Val, p.Path[:len(p.Path)-1])
	i := p.Path[len(p.Path)-1]
	switch x := parent.(type) {
	case *StructV:
		x.F[i] = v
	case *ArrayV:
		x.E[i] = v
	default:
		panic(fmt.Sprintf("store: %T is not an aggregate", parent))
	}
}

func (s *State) newObj(kind string, val Value) *Obj {
	s.nextObj++
	return &Obj{ID: s.nextObj, Kind: kind, Val: val}
}

func extendPath(p []int, i int) []int {
	n := make([]int, len(p)+1)
	copy(n, p)
	n[len(p)] = i
	return n
}

func samePtr(a, b Ptr) bool {
	if a.O != b.O {
		return false
	}
	if len(a.Path) != len(b.Path) {
		return false
	}
	for i := range a.Path {
		if a.Path[i] != b.Path[i] {
			return false
		}
	}
	return true
}

// keyEq decides equality of two map keys; ok=false if it cannot be decided concretely.
func keyEq(a, b Value) (eq bool, ok bool) {
	switch x := a.(type) {
	case *Term:
		y, isT := b.(*Term)
		if !isT {
			return false, true
		}
		if x == y {
			return true, true
		}
		if x.Const && y.Const {
			return false, true
		}
		return false, false
	case Ptr:
		y, isP := b.(Ptr)
		return isP && samePtr(x, y), true
	case IfaceV:
		y, isI := b.(IfaceV)
		if !isI {
			return false, true
		}
		if x.T == nil || y.T == nil {
			return x.T == nil && y.T == nil, true
		}
		if !types.Identical(x.T, y.T) {
			return false, true
		}
		return keyEq(x.V, y.V)
	case *StructV:
		y, isS := b.(*StructV)
		if !isS || len(x.F) != len(y.F) {
			return false, true
		}
		for i := range x.F {
			e, ok := keyEq(x.F[i], y.F[i])
			if !ok {
				return false, false
			}
			if !e {
				return false, true
			}
		}
		return true, true
	case OpaqueV:
		y, isO := b.(OpaqueV)
		return isO && x.ID == y.ID, true
	}
	return false, false
}

func (o *Obj) mapFind(k Value) int {
	for i, e := range o.Entries {
		eq, ok := keyEq(e.K, k)
		if !ok {
			panic(unsupported{"map look-up with a symbolic key"})
		}
		if eq {
			return i
		}
	}
	return -1
}

// ---------- rendering (for canonical forms, observations, debugging) ----------

type renderer struct {
	tc    *TermCtx
	ids   map[*Obj]int
	sb    strings.Builder
	depth int
	sym   bool // a non-constant term was rendered
}

func (r *renderer) obj(o *Obj) {
	if o == nil {
		r.sb.WriteString("nil")
		return
	}
	if id, ok := r.ids[o]; ok {
		fmt.Fprintf(&r.sb, "@%d", id)
		return
	}
	id := len(r.ids)
	r.ids[o] = id
	fmt.Fprintf(&r.sb, "@%d=%s{", id, o.Kind)
	switch o.Kind {
	case "map":
		// canonical order: by rendered key (keys are concrete)
		idx := make([]int, len(o.Entries))
		keys := make([]string, len(o.Entries))
		for i := range idx {
			idx[i] = i
			kr := &renderer{tc: r.tc, ids: map[*Obj]int{}}
			kr.val(o.Entries[i].K)
			keys[i] = kr.sb.String()
		}
		sort.Slice(idx, func(a, b int) bool { return keys[idx[a]] < keys[idx[b]] })
		for _, i := range idx {
			r.sb.WriteString(keys[i])
			r.sb.WriteByte(':')
			r.val(o.Entries[i].V)
			r.sb.WriteByte(',')
		}
	case "iter":
		r.obj(o.IterMap)
		r.sb.WriteString(" snap=")
		var snap []string
		for _, k := range o.IterSnap {
			kr := &renderer{tc: r.tc, ids: map[*Obj]int{}}
			kr.val(k)
			snap = append(snap, kr.sb.String())
		}
		sort.Strings(snap)
		r.sb.WriteString(strings.Join(snap, ","))
		r.sb.WriteString(" seen=")
		var seen []string
		for _, k := range o.IterSeen {
			kr := &renderer{tc: r.tc, ids: map[*Obj]int{}}
			kr.val(k)
			seen = append(seen, kr.sb.String())
		}
		sort.Strings(seen)
		r.sb.WriteString(strings.Join(seen, ","))
	case "chan":
		for _, k := range o.Queue {
			r.val(k)
			r.sb.WriteByte(',')
		}
	default:
		r.val(o.Val)
	}
	r.sb.WriteByte('}')
}

func (r *renderer) val(v Value) {
	switch x := v.(type) {
	case nil:
		r.sb.WriteString("<nil>")
	case *Term:
		if x.Const {
			r.sb.WriteString(r.tc.Show(x))
		} else {
			r.sym = true
			fmt.Fprintf(&r.sb, "t%d", x.ID)
		}
	case Ptr:
		r.sb.WriteByte('&')
		r.obj(x.O)
		if len(x.Path) > 0 {
			fmt.Fprintf(&r.sb, "%v", x.Path)
		}
	case *StructV:
		r.sb.WriteByte('{')
		if x != nil {
			for _, f := range x.F {
				r.val(f)
				r.sb.WriteByte(';')
			}
		}
		r.sb.WriteByte('}')
	case *ArrayV:
		r.sb.WriteByte('[')
		if x != nil {
			for _, f := range x.E {
				r.val(f)
				r.sb.WriteByte(';')
			}
		}
		r.sb.WriteByte(']')
	case SliceV:
		fmt.Fprintf(&r.sb, "slice(%d,%d,%d)", x.Off, x.Len, x.Cap)
		r.obj(x.O)
	case MapV:
		r.sb.WriteString("map")
		r.obj(x.O)
	case IfaceV:
		if x.T == nil {
			r.sb.WriteString("iface(nil)")
		} else {
			r.sb.WriteString("iface(" + x.T.String() + ":")
			r.val(x.V)
			r.sb.WriteByte(')')
		}
	case *ClosureV:
		if x == nil {
			r.sb.WriteString("func(nil)")
		} else {
			if x.Fn != nil {
				r.sb.WriteString("func(" + x.Fn.String())
			} else {
				r.sb.WriteString("func(native " + x.Native)
			}
			for _, b := range x.Bind {
				r.sb.WriteByte(' ')
				r.val(b)
			}
			r.sb.WriteByte(')')
		}
	case TupleV:
		r.sb.WriteByte('(')
		for _, f := range x {
			r.val(f)
			r.sb.WriteByte(',')
		}
		r.sb.WriteByte(')')
	case ChanV:
		r.sb.WriteString("chan")
		r.obj(x.O)
	case IterV:
		r.sb.WriteString("iter")
		r.obj(x.O)
	case OpaqueV:
		fmt.Fprintf(&r.sb, "opaque(%s#%d", x.Tag, x.ID)
		if x.X != nil {
			r.sb.WriteByte(' ')
			r.val(x.X)
		}
		r.sb.WriteByte(')')
	case *ssa.Function:
		r.sb.WriteString("fn:" + x.String())
	case *ssa.Builtin:
		r.sb.WriteString("builtin:" + x.Name())
	default:
		fmt.Fprintf(&r.sb, "?%T", v)
	}
}
