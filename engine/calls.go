package main

import (
	"fmt"
	"go/types"
	"strings"

	"golang.org/x/tools/go/ssa"
)

const zzvPath = "tkestack.io/kvass/pkg/zzv"

var blackholePkgs = map[string]bool{
	"github.com/sirupsen/logrus":                       true,
	"github.com/prometheus/client_golang/prometheus":   true,
	"github.com/prometheus/client_golang/prometheus/promauto": true,
}

func pkgPathOf(fn *ssa.Function) string {
	if fn.Pkg != nil {
		return fn.Pkg.Pkg.Path()
	}
	if fn.Object() != nil && fn.Object().Pkg() != nil {
		return fn.Object().Pkg().Path()
	}
	// synthetic wrappers: use the receiver's package if any
	if fn.Signature.Recv() != nil {
		t := fn.Signature.Recv().Type()
		if p, ok := t.(*types.Pointer); ok {
			t = p.Elem()
		}
		if n, ok := t.(*types.Named); ok && n.Obj().Pkg() != nil {
			return n.Obj().Pkg().Path()
		}
	}
	return ""
}

func (w *Worker) call(s *State, f *Frame, in ssa.Instruction, c *ssa.CallCommon, dst int) bool {
	args := make([]Value, 0, len(c.Args)+1)
	if c.IsInvoke() {
		recv := w.eval(s, f, c.Value)
		for _, a := range c.Args {
			args = append(args, w.eval(s, f, a))
		}
		return w.invoke(s, f, recv, c.Method, args, dst, in)
	}
	fv := w.eval(s, f, c.Value)
	for _, a := range c.Args {
		args = append(args, w.eval(s, f, a))
	}
	if b, ok := fv.(*ssa.Builtin); ok {
		res := w.builtin(s, f, b, args, c)
		if dst >= 0 {
			f.env[dst] = res
		}
		return true
	}
	return w.callValue(s, f, fv, args, dst, in)
}

func (w *Worker) callValue(s *State, f *Frame, fv Value, args []Value, dst int, in ssa.Instruction) bool {
	c, ok := fv.(*ClosureV)
	if !ok {
		panic(fmt.Sprintf("call of %T", fv))
	}
	if c == nil {
		panic(crash{"call of nil func"})
	}
	if c.Fn == nil {
		h, ok := nativeClosures[c.Native]
		if !ok {
			panic(unsupported{"native closure " + c.Native})
		}
		res := h(w, s, append(append([]Value(nil), c.Bind...), args...))
		if dst >= 0 {
			f.env[dst] = res
		}
		return true
	}
	return w.callFunction(s, f, c.Fn, args, c.Bind, dst)
}

func (w *Worker) invoke(s *State, f *Frame, recv Value, m *types.Func, args []Value, dst int, in ssa.Instruction) bool {
	iv, ok := recv.(IfaceV)
	if !ok {
		panic(fmt.Sprintf("invoke on %T", recv))
	}
	if iv.T == nil {
		panic(crash{"nil pointer dereference (method " + m.Name() + " on nil interface)"})
	}
	if op, ok := iv.V.(OpaqueV); ok {
		res := w.opaqueMethod(s, op, m, args)
		if dst >= 0 {
			f.env[dst] = res
		}
		return true
	}
	fn := w.prog.prog.LookupMethod(iv.T, m.Pkg(), m.Name())
	if fn == nil {
		panic(unsupported{"no method " + m.Name() + " for dynamic type " + iv.T.String()})
	}
	return w.callFunction(s, f, fn, append([]Value{iv.V}, args...), nil, dst)
}

// results builds a generic "don't care" result for external functions in black-hole packages.
func (w *Worker) blackholeResult(s *State, sig *types.Signature, recv Value) Value {
	mk := func(t types.Type) Value {
		if types.Identical(t, types.Universe.Lookup("error").Type()) {
			return IfaceV{}
		}
		switch u := t.Underlying().(type) {
		case *types.Interface:
			_ = u
			s.nOpaque++
			return IfaceV{T: t, V: OpaqueV{T: t, ID: s.nOpaque, Tag: "blackhole"}}
		case *types.Pointer:
			s.nOpaque++
			return OpaqueV{T: t, ID: s.nOpaque, Tag: "blackhole"}
		case *types.Basic, *types.Slice, *types.Map:
			return w.zero(t)
		case *types.Struct:
			return w.zero(t)
		}
		s.nOpaque++
		return OpaqueV{T: t, ID: s.nOpaque, Tag: "blackhole"}
	}
	r := sig.Results()
	switch r.Len() {
	case 0:
		return nil
	case 1:
		return mk(r.At(0).Type())
	}
	t := make(TupleV, r.Len())
	for i := range t {
		t[i] = mk(r.At(i).Type())
	}
	return t
}

func (w *Worker) opaqueMethod(s *State, op OpaqueV, m *types.Func, args []Value) Value {
	sig := m.Type().(*types.Signature)
	switch op.Tag {
	case "error":
		if m.Name() == "Error" {
			return op.X
		}
	case "blackhole":
		w.st.Stubs["blackhole:"+m.FullName()]++
		return w.blackholeResult(s, sig, op)
	}
	if h, ok := opaqueHandlers[op.Tag+"."+m.Name()]; ok {
		return h(w, s, op, args)
	}
	panic(unsupported{"method " + m.FullName() + " on opaque " + op.Tag})
}

var opaqueHandlers = map[string]func(w *Worker, s *State, op OpaqueV, args []Value) Value{}

func (w *Worker) newError(s *State, msg *Term) Value {
	s.nOpaque++
	et := types.Universe.Lookup("error").Type()
	return IfaceV{T: et, V: OpaqueV{T: et, ID: s.nOpaque, Tag: "error", X: msg}}
}

type stubFn func(w *Worker, s *State, f *Frame, fn *ssa.Function, args []Value, dst int) (ret Value, async bool)

func (w *Worker) callFunction(s *State, f *Frame, fn *ssa.Function, args []Value, bind []Value, dst int) bool {
	name := fn.String()
	pp := pkgPathOf(fn)
	if strings.HasPrefix(pp, "tkestack.io/kvass/") && pp != zzvPath && f != nil {
		s.edges[f.fn.Name()+">"+fn.Name()] = true
	}
	if pp == zzvPath {
		if h, ok := intrinsics[fn.Name()]; ok {
			ret, async := h(w, s, f, fn, args, dst)
			if async {
				return false
			}
			if dst >= 0 {
				f.env[dst] = ret
			}
			return true
		}
		if len(fn.Blocks) > 0 { // helper implemented in Go inside zzv (pure helpers)
			s.pushFrame(fn, args, bind, dst)
			return false
		}
		panic(unsupported{"unknown intrinsic " + name})
	}
	if sub, ok := w.cfg.Subst[name]; ok {
		sfn := w.prog.funcByName(sub)
		if sfn == nil {
			panic(unsupported{"substitute function not found: " + sub})
		}
		w.st.Stubs["subst:"+name+"="+sub]++
		s.pushFrame(sfn, args, nil, dst)
		return false
	}
	if h, ok := stubs[name]; ok {
		w.st.Stubs[name]++
		ret, async := h(w, s, f, fn, args, dst)
		if async {
			return false
		}
		if dst >= 0 {
			f.env[dst] = ret
		}
		return true
	}
	if blackholePkgs[pp] {
		w.st.Stubs["blackhole:"+pp]++
		var recv Value
		if len(args) > 0 {
			recv = args[0]
		}
		ret := w.blackholeResult(s, fn.Signature, recv)
		if dst >= 0 {
			f.env[dst] = ret
		}
		return true
	}
	if len(fn.Blocks) > 0 {
		if strings.HasPrefix(pp, "tkestack.io/kvass/") {
			w.st.Funcs[name] = true
		} else {
			w.st.Funcs["[dep] "+name] = true
		}
		s.pushFrame(fn, args, bind, dst)
		return false
	}
	if fn.Name() == "init" {
		if dst >= 0 {
			f.env[dst] = nil
		}
		return true
	}
	if s.inInit() {
		// package initialisers only set up globals (metrics, tables); an external constructor called
		// there yields an opaque value that real code cannot look into (any later use is UNSUPPORTED)
		w.st.Stubs["init-opaque:"+name]++
		ret := w.blackholeResult(s, fn.Signature, nil)
		ret = retag(ret, "initopaque")
		if dst >= 0 {
			f.env[dst] = ret
		}
		return true
	}
	panic(unsupported{"external call " + name})
}

// ---------- builtins ----------

func (w *Worker) builtin(s *State, f *Frame, b *ssa.Builtin, args []Value, c *ssa.CallCommon) Value {
	tc := w.tc
	switch b.Name() {
	case "len":
		switch x := args[0].(type) {
		case SliceV:
			return tc.BV(64, uint64(x.Len))
		case MapV:
			if x.O == nil {
				return tc.BV(64, 0)
			}
			return tc.BV(64, uint64(len(x.O.Entries)))
		case *Term:
			if !x.Const {
				panic(unsupported{"len of symbolic string"})
			}
			return tc.BV(64, uint64(len(x.S)))
		case *ArrayV:
			return tc.BV(64, uint64(len(x.E)))
		case ChanV:
			if x.O == nil {
				return tc.BV(64, 0)
			}
			return tc.BV(64, uint64(len(x.O.Queue)))
		case Ptr:
			arr := navigate(x.O.Val, x.Path).(*ArrayV)
			return tc.BV(64, uint64(len(arr.E)))
		}
	case "cap":
		switch x := args[0].(type) {
		case SliceV:
			return tc.BV(64, uint64(x.Cap))
		case ChanV:
			if x.O == nil {
				return tc.BV(64, 0)
			}
			return tc.BV(64, uint64(x.O.Cap))
		}
	case "append":
		dstS := args[0].(SliceV)
		var src []Value
		switch x := args[1].(type) {
		case SliceV:
			for i := 0; i < x.Len; i++ {
				src = append(src, copyAgg(x.O.Val.(*ArrayV).E[x.Off+i]))
			}
		case *Term: // append([]byte, string...)
			if !x.Const {
				panic(unsupported{"append of symbolic string"})
			}
			for i := 0; i < len(x.S); i++ {
				src = append(src, tc.BV(8, uint64(x.S[i])))
			}
		}
		if len(src) == 0 {
			return dstS
		}
		if dstS.O != nil && dstS.Len+len(src) <= dstS.Cap {
			arr := dstS.O.Val.(*ArrayV)
			for i, v := range src {
				arr.E[dstS.Off+dstS.Len+i] = v
			}
			return SliceV{dstS.O, dstS.Off, dstS.Len + len(src), dstS.Cap}
		}
		ncap := dstS.Cap * 2
		if ncap < dstS.Len+len(src) {
			ncap = dstS.Len + len(src)
		}
		el := c.Args[0].Type().Underlying().(*types.Slice).Elem()
		arr := &ArrayV{make([]Value, ncap)}
		for i := 0; i < dstS.Len; i++ {
			arr.E[i] = copyAgg(dstS.O.Val.(*ArrayV).E[dstS.Off+i])
		}
		for i, v := range src {
			arr.E[dstS.Len+i] = v
		}
		for i := dstS.Len + len(src); i < ncap; i++ {
			arr.E[i] = w.zero(el)
		}
		return SliceV{s.newObj("array", arr), 0, dstS.Len + len(src), ncap}
	case "copy":
		d := args[0].(SliceV)
		var src []Value
		switch x := args[1].(type) {
		case SliceV:
			for i := 0; i < x.Len; i++ {
				src = append(src, copyAgg(x.O.Val.(*ArrayV).E[x.Off+i]))
			}
		case *Term:
			if !x.Const {
				panic(unsupported{"copy from symbolic string"})
			}
			for i := 0; i < len(x.S); i++ {
				src = append(src, tc.BV(8, uint64(x.S[i])))
			}
		}
		n := len(src)
		if d.Len < n {
			n = d.Len
		}
		for i := 0; i < n; i++ {
			d.O.Val.(*ArrayV).E[d.Off+i] = src[i]
		}
		return tc.BV(64, uint64(n))
	case "delete":
		m := args[0].(MapV)
		if m.O == nil {
			return nil
		}
		if i := m.O.mapFind(args[1]); i >= 0 {
			m.O.Entries = append(append([]MapEntry{}, m.O.Entries[:i]...), m.O.Entries[i+1:]...)
		}
		return nil
	case "print", "println":
		return nil
	case "recover":
		return IfaceV{}
	case "close":
		ch := args[0].(ChanV)
		if ch.O == nil {
			panic(crash{"close of nil channel"})
		}
		if ch.O.Closed {
			panic(crash{"close of closed channel"})
		}
		ch.O.Closed = true
		return nil
	case "ssa:wrapnilchk":
		p := args[0].(Ptr)
		if p.O == nil {
			panic(crash{"value method called through nil pointer"})
		}
		return p
	}
	panic(unsupported{"builtin " + b.Name()})
}

// decideAmong forks over the alternatives whose guard is feasible and adds the chosen guard to
// the path condition. Returns the index chosen on this state.
func (w *Worker) decideAmong(s *State, guards []*Term, kind, name string) int {
	if len(s.forced) > 0 {
		d := s.forced[0]
		s.forced = s.forced[1:]
		s.made = append(s.made, d)
		s.trail = append(s.trail, int32(d))
		s.pc = s.pc.push(guards[d])
		s.choices = append(s.choices, choiceRec{kind, name, d, len(guards)})
		return d
	}
	var feas []int
	for i, g := range guards {
		if g.IsTrue() || (!g.IsFalse() && w.check(s.pc, g) != "unsat") {
			feas = append(feas, i)
		}
	}
	if len(feas) == 0 {
		panic(pathDead{})
	}
	for k := len(feas) - 1; k >= 1; k-- {
		c := s.clone()
		c.forced = append(append([]int(nil), s.made...), feas[k])
		c.made = nil
		c.trail = c.trail[:len(c.trail)-len(s.made)]
		c.forks++
		w.stack = append(w.stack, c)
		w.st.Forks++
	}
	if len(feas) > 1 {
		s.forks++
	}
	s.made = append(s.made, feas[0])
	s.trail = append(s.trail, int32(feas[0]))
	if !guards[feas[0]].IsTrue() {
		s.pc = s.pc.push(guards[feas[0]])
	}
	s.choices = append(s.choices, choiceRec{kind, name, feas[0], len(guards)})
	return feas[0]
}

func (w *Worker) concStr(v Value, what string) string {
	t := w.term(v)
	if !t.Const || t.Sort.K != SStr {
		panic(unsupported{"symbolic " + what})
	}
	return t.S
}

func (s *State) inInit() bool {
	for _, f := range s.frames {
		if f.isInit {
			return true
		}
	}
	return false
}

func retag(v Value, tag string) Value {
	switch x := v.(type) {
	case OpaqueV:
		x.Tag = tag
		return x
	case IfaceV:
		if o, ok := x.V.(OpaqueV); ok {
			o.Tag = tag
			x.V = o
		}
		return x
	case TupleV:
		for i := range x {
			x[i] = retag(x[i], tag)
		}
		return x
	}
	return v
}
