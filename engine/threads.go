package main

// Bounded thread model.
//
// Goroutines of the code under analysis become threads of one State. Exactly one thread runs at a
// time; a context switch can happen only at a synchronisation operation (mutex acquire, channel
// send / receive / select, errgroup.Wait, time.Sleep, thread exit) - for data-race-free code every
// behaviour is reachable with switches at these points only. Which enabled thread continues is a
// fork ("sched" decision), so the schedule is explored exhaustively up to the preemption bound: a
// switch away from a thread that could have continued counts as one preemption; switches at
// blocking points are free. Buffered channels only; an unbuffered rendezvous is reported as
// unsupported. A state in which no thread is enabled is a deadlock (crash).

import (
	"fmt"
	"go/types"

	"golang.org/x/tools/go/ssa"
)

type waitDesc struct {
	kind       string // lock, rlock, recv, send, select, join, sleep, quiesce
	key        string
	chans      []*Obj
	dirs       []types.ChanDir
	hasDefault bool
	join       []int
}

type Thread struct {
	id      int
	frames  []*Frame // nil for the running thread (State.frames is authoritative)
	done    bool
	resumed bool // switched in at its pending sync operation: it proceeds without a new decision
	wait    *waitDesc
}

func (t *Thread) clone(c *cloner) *Thread {
	n := &Thread{id: t.id, done: t.done, resumed: t.resumed, frames: c.frames(t.frames)}
	if t.wait != nil {
		wd := *t.wait
		if t.wait.chans != nil {
			wd.chans = make([]*Obj, len(t.wait.chans))
			for i, o := range t.wait.chans {
				wd.chans[i] = c.obj(o)
			}
		}
		n.wait = &wd
	}
	return n
}

const defaultPreemptBound = 2

func (s *State) ensureThreads() {
	if s.threads == nil {
		s.threads = []*Thread{{id: 0}}
		s.cur = 0
		if s.preemptBound == 0 {
			s.preemptBound = defaultPreemptBound
		}
	}
}

func chanReady(o *Obj, dir types.ChanDir) bool {
	if o == nil {
		return false // nil channel: blocks for ever
	}
	if dir == types.SendOnly {
		return o.Closed || len(o.Queue) < o.Cap
	}
	return o.Closed || len(o.Queue) > 0
}

func (s *State) wdEnabled(wd *waitDesc, self int) bool {
	if wd == nil {
		return true
	}
	switch wd.kind {
	case "lock":
		return s.locks[wd.key] == 0 && s.locks[wd.key+"r"] == 0
	case "rlock":
		return s.locks[wd.key] == 0
	case "recv":
		return chanReady(wd.chans[0], types.RecvOnly)
	case "send":
		return chanReady(wd.chans[0], types.SendOnly)
	case "select":
		if wd.hasDefault {
			return true
		}
		for i, o := range wd.chans {
			if chanReady(o, wd.dirs[i]) {
				return true
			}
		}
		return false
	case "join":
		for _, id := range wd.join {
			if !s.threads[id].done {
				return false
			}
		}
		return true
	case "sleep":
		return true
	case "quiesce":
		for _, t := range s.threads {
			if t.id == self || t.done {
				continue
			}
			if t.wait != nil && t.wait.kind == "quiesce" {
				continue
			}
			if s.wdEnabled(t.wait, t.id) {
				return false
			}
		}
		return true
	}
	panic("wait kind " + wd.kind)
}

func (s *State) switchTo(id int) {
	if id == s.cur {
		return
	}
	s.threads[s.cur].frames = s.frames
	s.cur = id
	s.frames = s.threads[id].frames
	s.threads[id].frames = nil
}

// schedPoint is called first thing by every synchronisation operation. It returns true if the
// current thread performs the operation now; false if another thread was switched in (the caller
// must leave its instruction pointer where it is, so the operation is retried when the thread is
// chosen again).
func (w *Worker) schedPoint(s *State, wd *waitDesc) bool {
	if s.threads == nil {
		if !s.wdEnabled(wd, 0) {
			panic(unsupported{"blocking " + wd.kind + " in sequential execution (would block for ever)"})
		}
		return true
	}
	cur := s.threads[s.cur]
	if cur.resumed {
		return true // chosen by a scheduling decision already; cleared when the instruction completes
	}
	cur.wait = wd
	selfOK := s.wdEnabled(wd, cur.id)
	if wd.kind == "send" && wd.chans[0] != nil && wd.chans[0].Cap == 0 {
		panic(unsupported{"unbuffered channel (rendezvous not modelled)"})
	}
	var cands []int
	if selfOK {
		cands = append(cands, cur.id)
	}
	if !selfOK || s.preempts < s.preemptBound {
		for _, t := range s.threads {
			if t.id != cur.id && !t.done && s.wdEnabled(t.wait, t.id) {
				cands = append(cands, t.id)
			}
		}
	}
	if len(cands) == 0 {
		panic(crash{"deadlock: all goroutines are blocked (" + s.blockedSummary() + ")"})
	}
	d := 0
	if len(cands) > 1 {
		d = w.decide(s, len(cands), "sched", "")
	}
	pick := cands[d]
	if pick == cur.id {
		return true
	}
	if selfOK {
		s.preempts++
	}
	s.switchTo(pick)
	if s.threads[pick].wait != nil {
		s.threads[pick].resumed = true
	}
	return false
}

func (s *State) blockedSummary() string {
	out := ""
	for _, t := range s.threads {
		if t.done {
			continue
		}
		k := "runnable"
		if t.wait != nil {
			k = t.wait.kind + " " + t.wait.key
		}
		out += fmt.Sprintf("g%d:%s ", t.id, k)
	}
	return out
}

// opDone is called by step() when an instruction completed: a resumed thread's pending operation
// has been performed.
func (s *State) opDone() {
	if s.threads != nil {
		t := s.threads[s.cur]
		if t.resumed || t.wait != nil {
			t.resumed = false
			t.wait = nil
		}
	}
}

// threadExit handles the Return of the bottom frame of a spawned thread: the next thread is chosen
// (before any side effect, so that forked alternatives can re-execute the Return).
func (w *Worker) threadExit(s *State) {
	cur := s.threads[s.cur]
	cur.done = true
	cur.wait = nil
	var cands []int
	for _, t := range s.threads {
		if !t.done && s.wdEnabled(t.wait, t.id) {
			cands = append(cands, t.id)
		}
	}
	if len(cands) == 0 {
		panic(crash{"deadlock: all goroutines are blocked (" + s.blockedSummary() + ")"})
	}
	d := 0
	if len(cands) > 1 {
		d = w.decide(s, len(cands), "sched", "")
	}
	s.frames = nil
	pick := cands[d]
	s.switchTo(pick)
	if s.threads[pick].wait != nil {
		s.threads[pick].resumed = true
	}
}

// spawn runs the call in a fresh thread: the callee frame is pushed on an empty stack, which
// becomes the new thread's stack (a callee handled by a stub has already run to completion).
func (w *Worker) spawn(s *State, run func()) int {
	s.ensureThreads()
	saved := s.frames
	s.frames = nil
	run()
	nf := s.frames
	s.frames = saved
	th := &Thread{id: len(s.threads), frames: nf, done: len(nf) == 0}
	s.threads = append(s.threads, th)
	return th.id
}

func (w *Worker) goStmt(s *State, f *Frame, x *ssa.Go) bool {
	w.spawn(s, func() {
		if w.call(s, f, x, &x.Call, -1) {
			// executed synchronously (stub / builtin): nothing left to run
			s.frames = nil
		}
	})
	return true
}

func (w *Worker) sendStmt(s *State, f *Frame, x *ssa.Send) bool {
	ch := w.eval(s, f, x.Chan).(ChanV)
	if !w.schedPoint(s, &waitDesc{kind: "send", chans: []*Obj{ch.O}}) {
		return false
	}
	if ch.O.Closed {
		panic(crash{"send on closed channel"})
	}
	ch.O.Queue = append(ch.O.Queue, w.eval(s, f, x.X))
	return true
}

func (w *Worker) recvFrom(s *State, o *Obj, t types.Type) (Value, bool) {
	if len(o.Queue) > 0 {
		e := o.Queue[0]
		o.Queue = append([]Value(nil), o.Queue[1:]...)
		return e, true
	}
	// closed and drained
	return w.zero(t.Underlying().(*types.Chan).Elem()), false
}

func (w *Worker) recvStmt(s *State, f *Frame, x *ssa.UnOp) bool {
	ch := w.eval(s, f, x.X).(ChanV)
	if !w.schedPoint(s, &waitDesc{kind: "recv", chans: []*Obj{ch.O}}) {
		return false
	}
	e, ok := w.recvFrom(s, ch.O, x.X.Type())
	if x.CommaOk {
		w.set(f, x, TupleV{e, w.tc.Bool(ok)})
	} else {
		w.set(f, x, e)
	}
	return true
}

func (w *Worker) selectStmt(s *State, f *Frame, x *ssa.Select) bool {
	wd := &waitDesc{kind: "select", hasDefault: !x.Blocking}
	for _, st := range x.States {
		ch := w.eval(s, f, st.Chan).(ChanV)
		wd.chans = append(wd.chans, ch.O)
		wd.dirs = append(wd.dirs, st.Dir)
	}
	if !w.schedPoint(s, wd) {
		return false
	}
	var ready []int
	for i, o := range wd.chans {
		if chanReady(o, wd.dirs[i]) {
			ready = append(ready, i)
		}
	}
	idx := -1
	if len(ready) > 0 {
		d := 0
		if len(ready) > 1 {
			d = w.decide(s, len(ready), "select", "")
		}
		idx = ready[d]
	} else if x.Blocking {
		panic(unsupported{"select with no ready case"})
	}
	res := TupleV{w.tc.BV(64, uint64(int64(idx))), w.tc.False}
	for i, st := range x.States {
		if st.Dir != types.RecvOnly {
			if i == idx {
				o := wd.chans[i]
				if o.Closed {
					panic(crash{"send on closed channel"})
				}
				if o.Cap == 0 {
					panic(unsupported{"unbuffered channel (rendezvous not modelled)"})
				}
				o.Queue = append(o.Queue, w.eval(s, f, st.Send))
			}
			continue
		}
		if i == idx {
			e, ok := w.recvFrom(s, wd.chans[i], st.Chan.Type())
			res[1] = w.tc.Bool(ok)
			res = append(res, e)
		} else {
			res = append(res, w.zero(st.Chan.Type().Underlying().(*types.Chan).Elem()))
		}
	}
	w.set(f, x, res)
	return true
}

func objKey(v Value) string {
	p := v.(Ptr)
	if p.O == nil {
		panic(crash{"nil pointer dereference (sync object)"})
	}
	return fmt.Sprintf("%d%v", p.O.ID, p.Path)
}

func init() {
	// zzv.Threads(p): from here on errgroup.Go starts real threads; p = preemption bound
	intrinsics["Threads"] = func(w *Worker, s *State, f *Frame, fn *ssa.Function, a []Value, d int) (Value, bool) {
		s.threadsOn = true
		s.preemptBound = w.concInt(a[0], "preemption bound")
		s.ensureThreads()
		return nil, false
	}
	// zzv.Quiesce(): blocks until no other goroutine can make a step
	intrinsics["Quiesce"] = func(w *Worker, s *State, f *Frame, fn *ssa.Function, a []Value, d int) (Value, bool) {
		if s.threads == nil {
			return nil, false
		}
		if !w.schedPoint(s, &waitDesc{kind: "quiesce"}) {
			return nil, true
		}
		return nil, false
	}
	// zzv.Yield(): a plain scheduling point
	intrinsics["Yield"] = func(w *Worker, s *State, f *Frame, fn *ssa.Function, a []Value, d int) (Value, bool) {
		if s.threads == nil {
			return nil, false
		}
		if !w.schedPoint(s, &waitDesc{kind: "sleep"}) {
			return nil, true
		}
		return nil, false
	}
	// zzv.Feasible(cond): can cond hold on this path? (satisfiability, decided by the solver)
	intrinsics["Feasible"] = func(w *Worker, s *State, f *Frame, fn *ssa.Function, a []Value, d int) (Value, bool) {
		c := w.term(a[0])
		if c.Const {
			return c, false
		}
		r := w.check(s.pc, c)
		if r == "error" {
			panic(unsupported{"solver error on Feasible query: " + lastSolverError})
		}
		return w.tc.Bool(r != "unsat"), false
	}
	// zzv.Preemptions(): number of preemptive switches so far (engine-only observation)
	intrinsics["Preemptions"] = func(w *Worker, s *State, f *Frame, fn *ssa.Function, a []Value, d int) (Value, bool) {
		return w.tc.BV(64, uint64(s.preempts)), false
	}
}
