package main

// One live SMT solver process per worker. Definitions are emitted once (define-fun, level 0),
// queries are check-sat-assuming over Bool symbols. Any "(error" in the output makes the query
// inconclusive ("error").

import (
	"bufio"
	"os"
	"fmt"
	"io"
	"os/exec"
	"strings"
	"time"
)

type SolverKind int

const (
	Z3 SolverKind = iota
	Z3New
	CVC5
	CVC5Int // cvc5 --solve-bv-as-int=sum (one-shot fallback for wrap-around-heavy arithmetic)
)

func (k SolverKind) String() string {
	switch k {
	case Z3:
		return "z3-4.8.12"
	case Z3New:
		return "z3-new-5.1.0"
	case CVC5:
		return "cvc5-1.0"
	case CVC5Int:
		return "cvc5-1.0 --solve-bv-as-int=sum"
	}
	return "?"
}

type Solver struct {
	kind      SolverKind
	ctx       *TermCtx
	cmd       *exec.Cmd
	in        io.WriteCloser
	out       *bufio.Reader
	emitted   map[int]bool
	ufs       map[string]bool
	timeoutMs int
	Queries   int
	SinceBoot int
	Time      time.Duration
	Restarts  int
	buf       strings.Builder
	Log       io.Writer // optional transcript
	scopes    []scopeRec
	emitOrder []int
	trackOrder bool
	inQuery   bool
	Slowest   time.Duration
	Hist      [5]int
	HistT     [2]time.Duration
	SlowCount int
}

func NewSolver(kind SolverKind, ctx *TermCtx, timeoutMs int) *Solver {
	s := &Solver{kind: kind, ctx: ctx, timeoutMs: timeoutMs}
	s.start()
	return s
}

func (s *Solver) start() {
	var cmd *exec.Cmd
	switch s.kind {
	case Z3:
		cmd = exec.Command("/usr/bin/z3", "-in", fmt.Sprintf("-t:%d", s.timeoutMs))
	case Z3New:
		cmd = exec.Command("z3-new", "-in", fmt.Sprintf("-t:%d", s.timeoutMs))
	case CVC5:
		args := []string{"--incremental", "--produce-models", "--lang=smt2", fmt.Sprintf("--tlimit-per=%d", s.timeoutMs), "--fp-exp"}
		if os.Getenv("SYMGO_CVC5_INT") != "" {
			args = append(args, "--solve-bv-as-int=sum")
		}
		cmd = exec.Command("/usr/bin/cvc5", args...)
	}
	in, err := cmd.StdinPipe()
	if err != nil {
		panic(err)
	}
	out, err := cmd.StdoutPipe()
	if err != nil {
		panic(err)
	}
	cmd.Stderr = cmd.Stdout
	if err := cmd.Start(); err != nil {
		panic(err)
	}
	s.cmd, s.in, s.out = cmd, in, bufio.NewReaderSize(out, 1<<16)
	s.emitted = map[int]bool{}
	s.ufs = map[string]bool{}
	s.SinceBoot = 0
	s.scopes = nil
	s.emitOrder = nil
	if s.kind == CVC5 {
		s.send("(set-logic ALL)\n")
	} else {
		s.send("(set-option :produce-models true)\n")
	}
}

func (s *Solver) Close() {
	if s.cmd != nil {
		s.in.Close()
		s.cmd.Process.Kill()
		s.cmd.Wait()
		s.cmd = nil
	}
}

func (s *Solver) restart() {
	s.Close()
	s.Restarts++
	s.start()
}

func (s *Solver) send(str string) {
	if s.Log != nil {
		io.WriteString(s.Log, str)
	}
	if _, err := io.WriteString(s.in, str); err != nil {
		panic(fmt.Sprintf("solver write: %v", err))
	}
}

// emit writes definitions for t and its dependencies into s.buf.
func (s *Solver) emit(t *Term) {
	if t.Const || s.emitted[t.ID] {
		return
	}
	// iterative DFS to avoid deep recursion
	type fr struct {
		t *Term
		i int
	}
	stack := []fr{{t, 0}}
	for len(stack) > 0 {
		f := &stack[len(stack)-1]
		if f.i < len(f.t.Args) {
			a := f.t.Args[f.i]
			f.i++
			if !a.Const && !s.emitted[a.ID] {
				stack = append(stack, fr{a, 0})
			}
			continue
		}
		x := f.t
		stack = stack[:len(stack)-1]
		if s.emitted[x.ID] {
			continue
		}
		s.emitted[x.ID] = true
		if n := len(s.scopes); n > 0 {
			s.scopes[n-1].emitted = append(s.scopes[n-1].emitted, x.ID)
		}
		if x.Op == "var" {
			fmt.Fprintf(&s.buf, "(declare-const %s %s)\n", smtName(x), x.Sort)
			continue
		}
		if x.Op == "uf" && !s.ufs[x.S] {
			s.ufs[x.S] = true
			if n := len(s.scopes); n > 0 {
				s.scopes[n-1].ufs = append(s.scopes[n-1].ufs, x.S)
			}
			fmt.Fprintf(&s.buf, "(declare-fun |uf_%s| (", x.S)
			for i, a := range x.Args {
				if i > 0 {
					s.buf.WriteByte(' ')
				}
				s.buf.WriteString(a.Sort.String())
			}
			fmt.Fprintf(&s.buf, ") %s)\n", x.Sort)
		}
		fmt.Fprintf(&s.buf, "(define-fun %s () %s %s)\n", smtName(x), x.Sort, s.ctx.body(x))
	}
}

func (s *Solver) readUntilDone() string {
	var sb strings.Builder
	for {
		line, err := s.out.ReadString('\n')
		if strings.TrimSpace(line) == "DONE" || strings.TrimSpace(line) == "\"DONE\"" {
			break
		}
		sb.WriteString(line)
		if err != nil {
			sb.WriteString("(error \"solver died: " + err.Error() + "\")")
			break
		}
	}
	return sb.String()
}

// Check decides the conjunction of lits. Result is "sat", "unsat", "unknown" or "error".
func (s *Solver) Check(lits []*Term) string {
	var real []*Term
	for _, l := range lits {
		if l.IsTrue() {
			continue
		}
		if l.IsFalse() {
			return "unsat"
		}
		real = append(real, l)
	}
	if len(real) == 0 {
		return "sat"
	}
	if s.SinceBoot > 4000 || len(s.emitted) > 150000 {
		s.restart()
	}
	t0 := time.Now()
	s.buf.Reset()
	for _, l := range real {
		s.emit(l)
	}
	s.buf.WriteString("(check-sat-assuming (")
	for i, l := range real {
		if i > 0 {
			s.buf.WriteByte(' ')
		}
		s.buf.WriteString(smtName(l))
	}
	s.buf.WriteString("))\n(echo \"DONE\")\n")
	s.send(s.buf.String())
	out := s.readUntilDone()
	s.Queries++
	s.SinceBoot++
	s.Time += time.Since(t0)
	if strings.Contains(out, "(error") {
		if s.Log != nil {
			fmt.Fprintf(s.Log, "; OUTPUT: %s\n", out)
		}
		lastSolverError = out
		s.restart()
		return "error"
	}
	res := strings.TrimSpace(out)
	switch res {
	case "sat", "unsat":
		return res
	}
	if strings.HasPrefix(res, "unknown") || strings.Contains(res, "timeout") {
		return "unknown"
	}
	lastSolverError = out
	s.restart()
	return "error"
}

var lastSolverError string

// Values fetches model values for the given terms after a "sat" answer. Returned strings are raw
// SMT values.
func (s *Solver) Values(ts []*Term) (map[int]string, error) {
	res := map[int]string{}
	var q []*Term
	for _, t := range ts {
		if t.Const {
			res[t.ID] = s.ctx.constSMT(t)
			continue
		}
		if !s.emitted[t.ID] {
			// not part of the query: any value will do; solver completes the model after declaration
			continue
		}
		q = append(q, t)
	}
	for len(q) > 0 {
		n := len(q)
		if n > 200 {
			n = 200
		}
		var sb strings.Builder
		sb.WriteString("(get-value (")
		for _, t := range q[:n] {
			sb.WriteString(smtName(t))
			sb.WriteByte(' ')
		}
		sb.WriteString("))\n(echo \"DONE\")\n")
		s.send(sb.String())
		out := s.readUntilDone()
		if strings.Contains(out, "(error") {
			return nil, fmt.Errorf("get-value: %s", out)
		}
		sx, err := parseSexp(out)
		if err != nil {
			return nil, err
		}
		byName := map[string]string{}
		for _, pair := range sx.list {
			if len(pair.list) == 2 {
				byName[pair.list[0].String()] = pair.list[1].String()
			}
		}
		for _, t := range q[:n] {
			if v, ok := byName[smtName(t)]; ok {
				res[t.ID] = v
			} else if v, ok := byName[strings.Trim(smtName(t), "|")]; ok {
				res[t.ID] = v
			}
		}
		q = q[n:]
	}
	return res, nil
}

// ---- tiny s-expression parser ----

type sexp struct {
	atom string
	list []*sexp
	isL  bool
}

func (s *sexp) String() string {
	if !s.isL {
		return s.atom
	}
	parts := make([]string, len(s.list))
	for i, x := range s.list {
		parts[i] = x.String()
	}
	return "(" + strings.Join(parts, " ") + ")"
}

func parseSexp(in string) (*sexp, error) {
	pos := 0
	var parse func() (*sexp, error)
	skip := func() {
		for pos < len(in) && (in[pos] == ' ' || in[pos] == '\n' || in[pos] == '\t' || in[pos] == '\r') {
			pos++
		}
	}
	parse = func() (*sexp, error) {
		skip()
		if pos >= len(in) {
			return nil, fmt.Errorf("eof")
		}
		if in[pos] == '(' {
			pos++
			l := &sexp{isL: true}
			for {
				skip()
				if pos >= len(in) {
					return nil, fmt.Errorf("eof in list")
				}
				if in[pos] == ')' {
					pos++
					return l, nil
				}
				x, err := parse()
				if err != nil {
					return nil, err
				}
				l.list = append(l.list, x)
			}
		}
		start := pos
		if in[pos] == '|' {
			pos++
			for pos < len(in) && in[pos] != '|' {
				pos++
			}
			pos++
			return &sexp{atom: in[start:pos]}, nil
		}
		if in[pos] == '"' {
			pos++
			for pos < len(in) && in[pos] != '"' {
				pos++
			}
			pos++
			return &sexp{atom: in[start:pos]}, nil
		}
		for pos < len(in) && !strings.ContainsRune(" \n\t\r()", rune(in[pos])) {
			pos++
		}
		return &sexp{atom: in[start:pos]}, nil
	}
	return parse()
}

// OneShot decides the conjunction of lits in a fresh solver process with plain assertions (so
// that the solver's full preprocessing / tactic pipeline applies, which the incremental core
// does not use). Used when the incremental answer is "unknown". Returns the verdict and, for
// sat, model values of the requested terms.
func (s *Solver) OneShot(lits []*Term, want []*Term, timeoutMs int) (string, map[int]string) {
	return s.OneShotKind(s.kind, lits, want, timeoutMs)
}

func (s *Solver) OneShotKind(kind SolverKind, lits []*Term, want []*Term, timeoutMs int) (string, map[int]string) {
	tmp := &Solver{kind: kind, ctx: s.ctx, emitted: map[int]bool{}, ufs: map[string]bool{}}
	for _, l := range lits {
		tmp.emit(l)
	}
	var wanted []*Term
	for _, t := range want {
		if !t.Const && tmp.emitted[t.ID] {
			wanted = append(wanted, t)
		}
	}
	var sb strings.Builder
	sb.WriteString("(set-option :produce-models true)\n")
	if kind == CVC5 || kind == CVC5Int {
		sb.WriteString("(set-logic ALL)\n")
	}
	sb.WriteString(tmp.buf.String())
	for _, l := range lits {
		if l.Const {
			if l.U == 0 {
				return "unsat", nil
			}
			continue
		}
		sb.WriteString("(assert " + smtName(l) + ")\n")
	}
	sb.WriteString("(check-sat)\n")
	if len(wanted) > 0 {
		sb.WriteString("(get-value (")
		for _, t := range wanted {
			sb.WriteString(smtName(t) + " ")
		}
		sb.WriteString("))\n")
	}
	var cmd *exec.Cmd
	switch kind {
	case Z3:
		cmd = exec.Command("/usr/bin/z3", "-in", fmt.Sprintf("-T:%d", (timeoutMs+999)/1000))
	case Z3New:
		cmd = exec.Command("z3-new", "-in", fmt.Sprintf("-T:%d", (timeoutMs+999)/1000))
	case CVC5:
		cmd = exec.Command("/usr/bin/cvc5", "--produce-models", "--lang=smt2", fmt.Sprintf("--tlimit=%d", timeoutMs), "--fp-exp")
	case CVC5Int:
		cmd = exec.Command("/usr/bin/cvc5", "--produce-models", "--lang=smt2", fmt.Sprintf("--tlimit=%d", timeoutMs), "--solve-bv-as-int=sum")
	}
	cmd.Stdin = strings.NewReader(sb.String())
	t0 := time.Now()
	outb, _ := cmd.CombinedOutput()
	s.Time += time.Since(t0)
	s.Queries++
	out := string(outb)
	first := strings.TrimSpace(strings.SplitN(strings.TrimSpace(out), "\n", 2)[0])
	if first != "sat" && first != "unsat" && strings.Contains(out, "(error") {
		lastSolverError = out
		return "error", nil
	}
	switch first {
	case "unsat":
		return "unsat", nil
	case "sat":
		vals := map[int]string{}
		rest := strings.SplitN(strings.TrimSpace(out), "\n", 2)
		if len(rest) == 2 && len(wanted) > 0 {
			if sx, err := parseSexp(rest[1]); err == nil {
				byName := map[string]string{}
				for _, pair := range sx.list {
					if len(pair.list) == 2 {
						byName[pair.list[0].String()] = pair.list[1].String()
					}
				}
				for _, t := range wanted {
					if v, ok := byName[smtName(t)]; ok {
						vals[t.ID] = v
					} else if v, ok := byName[strings.Trim(smtName(t), "|")]; ok {
						vals[t.ID] = v
					}
				}
			}
		}
		return "sat", vals
	}
	return "unknown", nil
}

// ---------- scoped (push/pop) mode ----------
//
// CheckPC keeps the solver's assertion stack equal to a path condition (one scope per literal)
// and asks each query as push/assert/check-sat/pop on top of it. Depth-first exploration makes
// consecutive queries share long prefixes, so internalised formulas and learned clauses are
// reused. Definitions made inside a scope disappear when it is popped; they are tracked per
// level and re-emitted on demand.

type scopeRec struct {
	node    *PC
	emitted []int
	ufs     []string
}

func (s *Solver) emitScoped(t *Term) { s.emit(t) }

func (s *Solver) popTo(n int) {
	if n >= len(s.scopes) {
		return
	}
	k := len(s.scopes) - n
	for _, sc := range s.scopes[n:] {
		for _, id := range sc.emitted {
			delete(s.emitted, id)
		}
		for _, u := range sc.ufs {
			delete(s.ufs, u)
		}
	}
	s.scopes = s.scopes[:n]
	fmt.Fprintf(&s.buf, "(pop %d)\n", k)
}

// CheckPC decides pc ∧ extra.
func (s *Solver) CheckPC(pc *PC, extra ...*Term) string {
	for _, e := range extra {
		if e.IsFalse() {
			return "unsat"
		}
	}
	if s.SinceBoot > 20000 {
		s.restart()
	}
	t0 := time.Now()
	s.buf.Reset()
	// align the scope stack with pc
	chain := make([]*PC, 0, 64)
	for q := pc; q != nil; q = q.parent {
		chain = append(chain, q)
	}
	// chain is leaf..root; find the longest common prefix with s.scopes (root..)
	n := 0
	for n < len(s.scopes) && n < len(chain) && s.scopes[n].node == chain[len(chain)-1-n] {
		n++
	}
	s.popTo(n)
	for i := len(chain) - 1 - n; i >= 0; i-- {
		node := chain[i]
		s.buf.WriteString("(push 1)\n")
		s.scopes = append(s.scopes, scopeRec{node: node})
		if !node.lit.IsTrue() {
			s.emitScoped(node.lit)
			fmt.Fprintf(&s.buf, "(assert %s)\n", s.ctx.ref(node.lit))
		}
	}
	// the query scope
	s.buf.WriteString("(push 1)\n")
	s.scopes = append(s.scopes, scopeRec{})
	for _, e := range extra {
		if e.IsTrue() {
			continue
		}
		s.emitScoped(e)
		fmt.Fprintf(&s.buf, "(assert %s)\n", s.ctx.ref(e))
	}
	s.buf.WriteString("(check-sat)\n(echo \"DONE\")\n")
	s.send(s.buf.String())
	out := s.readUntilDone()
	s.Queries++
	s.SinceBoot++
	dt := time.Since(t0)
	s.Time += dt
	switch {
	case dt < 5*time.Millisecond:
		s.Hist[0]++
	case dt < 50*time.Millisecond:
		s.Hist[1]++
	case dt < 500*time.Millisecond:
		s.Hist[2]++
	case dt < 1400*time.Millisecond:
		s.Hist[3]++
	default:
		s.Hist[4]++
	}
	s.HistT[map[bool]int{true: 0, false: 1}[dt < 50*time.Millisecond]] += dt
	if dt > s.Slowest {
		s.Slowest = dt
	}
	if dt > 500*time.Millisecond {
		s.SlowCount++
		if slowLog != "" && s.SlowCount <= 3 {
			dumpSlow(s, pc, extra, dt, strings.TrimSpace(out))
		}
	}
	s.inQuery = true
	if strings.Contains(out, "(error") {
		lastSolverError = out
		s.restart()
		return "error"
	}
	res := strings.TrimSpace(out)
	switch res {
	case "sat", "unsat":
		return res
	}
	if strings.HasPrefix(res, "unknown") || strings.Contains(res, "timeout") {
		return "unknown"
	}
	lastSolverError = out
	s.restart()
	return "error"
}

var slowLog = os.Getenv("SYMGO_SLOWLOG")

func dumpSlow(s *Solver, pc *PC, extra []*Term, dt time.Duration, res string) {
	tmp := &Solver{kind: s.kind, ctx: s.ctx, emitted: map[int]bool{}, ufs: map[string]bool{}}
	lits := append(pc.lits(), extra...)
	for _, l := range lits {
		tmp.emit(l)
	}
	var sb strings.Builder
	fmt.Fprintf(&sb, "; %s took %v\n", res, dt)
	sb.WriteString(tmp.buf.String())
	for _, l := range lits {
		if !l.Const {
			sb.WriteString("(assert " + smtName(l) + ")\n")
		}
	}
	sb.WriteString("(check-sat)\n")
	f, err := os.OpenFile(fmt.Sprintf("%s.%d.%d.smt2", slowLog, os.Getpid(), time.Now().UnixNano()), os.O_CREATE|os.O_WRONLY, 0644)
	if err == nil {
		f.WriteString(sb.String())
		f.Close()
	}
}
