package main

import (
	"fmt"
	"go/types"
	"sync"

	"golang.org/x/tools/go/ssa"
)

// control-flow panics used inside the interpreter
type crash struct{ why string }       // Go run-time panic in the code under analysis
type unsupported struct{ what string } // engine cannot model this: path is INCONCLUSIVE
type pathDead struct{}                 // path condition became infeasible (assume)

type PC struct {
	lit    *Term
	parent *PC
	n      int
}

func (p *PC) push(l *Term) *PC {
	n := 1
	if p != nil {
		n = p.n + 1
	}
	return &PC{lit: l, parent: p, n: n}
}

func (p *PC) lits() []*Term {
	if p == nil {
		return nil
	}
	out := make([]*Term, p.n)
	for q := p; q != nil; q = q.parent {
		out[q.n-1] = q.lit
	}
	return out
}

func (p *PC) has(l *Term) bool {
	for q := p; q != nil; q = q.parent {
		if q.lit == l {
			return true
		}
	}
	return false
}

type deferRec struct {
	fn   Value
	args []Value
	// invoke-mode defer
	method *types.Func
	recv   Value
}

type Frame struct {
	fn        *ssa.Function
	info      *funcInfo
	env       []Value
	block     *ssa.BasicBlock
	prev      *ssa.BasicBlock
	ip        int
	defers    []deferRec
	callerReg int  // register index in the caller that receives the result (-1: none)
	catch     bool // Crashed() boundary: result is Bool(false) on return, Bool(true) on crash
	discard   bool // result is dropped (errgroup.Go, monitors)
	loops     map[int]int
	runningDefers bool
	isInit    bool
}

type choiceRec struct {
	Kind string `json:"kind"`
	Name string `json:"name,omitempty"`
	Pick int    `json:"pick"`
	Of   int    `json:"of"`
}

type obsRec struct {
	label string
	vals  []Value
	prev  *obsRec
	n     int
}

type findingPred struct {
	id   string
	pred *Term
}

type State struct {
	frames  []*Frame
	globals map[*ssa.Global]*Obj
	pc      *PC
	nextObj int
	forced  []int // decisions the current instruction must take (set on a clone)
	made    []int // decisions taken so far by the current instruction
	inputs  []*Term
	inputSet map[int]bool
	choices []choiceRec
	covers  map[string]bool
	edges   map[string]bool
	obs     *obsRec
	pending []findingPred
	clock   *Term // last instant returned by time.Now (nil: none yet)
	nclock  int
	locks   map[string]int
	forks   int // number of symbolic forks so far on this path
	status  string
	why     string
	nOpaque int
	steps   int
	ghost   map[string]Value
	chooseSeq []int
	trail   []int32 // every decision taken since the initial state
	lockCount int
	chosen  map[string]int // named Choose decisions taken on this path
	merged  bool    // passed a merge point (cannot be shipped to another worker)
	abst    *absRec // abstractions (uninterpreted summaries) introduced on this path
	// bounded thread model (threads.go); nil while the execution is sequential
	threads   []*Thread
	cur       int
	preempts  int
	threadsOn bool // errgroup.Go spawns threads (zzv.Threads)
	preemptBound int
	groups    map[string][]int // errgroup / WaitGroup key -> member thread ids
}

type absRec struct {
	uf, exact *Term
	prev      *absRec
}

func (s *State) top() *Frame { return s.frames[len(s.frames)-1] }

func (c *cloner) frames(fs []*Frame) []*Frame {
	if fs == nil {
		return nil
	}
	out := make([]*Frame, len(fs))
	for i, f := range fs {
		nf := *f
		nf.env = c.vals(f.env)
		if f.defers != nil {
			nf.defers = make([]deferRec, len(f.defers))
			for j, d := range f.defers {
				nf.defers[j] = deferRec{fn: c.val(d.fn), args: c.vals(d.args), method: d.method, recv: c.val(d.recv)}
			}
		}
		if f.loops != nil {
			nf.loops = make(map[int]int, len(f.loops))
			for k, v := range f.loops {
				nf.loops[k] = v
			}
		}
		out[i] = &nf
	}
	return out
}

func (s *State) clone() *State {
	c := &cloner{memo: map[*Obj]*Obj{}}
	n := &State{
		pc: s.pc, nextObj: s.nextObj, clock: s.clock, nclock: s.nclock, forks: s.forks,
		status: s.status, nOpaque: s.nOpaque, obs: s.obs, steps: s.steps, abst: s.abst, merged: s.merged, lockCount: s.lockCount,
	}
	n.frames = c.frames(s.frames)
	n.cur, n.preempts, n.threadsOn, n.preemptBound = s.cur, s.preempts, s.threadsOn, s.preemptBound
	if s.threads != nil {
		n.threads = make([]*Thread, len(s.threads))
		for i, t := range s.threads {
			n.threads[i] = t.clone(c)
		}
	}
	if s.groups != nil {
		n.groups = make(map[string][]int, len(s.groups))
		for k, v := range s.groups {
			n.groups[k] = append([]int(nil), v...)
		}
	}
	n.globals = make(map[*ssa.Global]*Obj, len(s.globals))
	for g, o := range s.globals {
		n.globals[g] = c.obj(o)
	}
	n.inputs = append([]*Term(nil), s.inputs...)
	n.inputSet = make(map[int]bool, len(s.inputSet))
	for k := range s.inputSet {
		n.inputSet[k] = true
	}
	n.choices = append([]choiceRec(nil), s.choices...)
	n.chooseSeq = append([]int(nil), s.chooseSeq...)
	n.trail = append([]int32(nil), s.trail...)
	n.covers = make(map[string]bool, len(s.covers))
	for k := range s.covers {
		n.covers[k] = true
	}
	n.edges = make(map[string]bool, len(s.edges))
	for k := range s.edges {
		n.edges[k] = true
	}
	if s.chosen != nil {
		n.chosen = make(map[string]int, len(s.chosen))
		for k, v := range s.chosen {
			n.chosen[k] = v
		}
	}
	n.locks = make(map[string]int, len(s.locks))
	for k, v := range s.locks {
		n.locks[k] = v
	}
	for _, p := range s.pending {
		n.pending = append(n.pending, p)
	}
	if s.ghost != nil {
		n.ghost = make(map[string]Value, len(s.ghost))
		for k, v := range s.ghost {
			n.ghost[k] = c.val(v)
		}
	}
	// obs values may reference heap objects: they are rendered at record time, so obs is shareable
	return n
}

// ---------- per-function static info ----------

type funcInfo struct {
	idx  map[ssa.Value]int
	n    int
	live [][]bool // live[b][r]: register r may still be read from block b onwards (conservative)
	// back[b.Index][succIndex] is true if the edge b->succ is a back edge (succ dominates b)
}

var funcInfos sync.Map

func infoOf(fn *ssa.Function) *funcInfo {
	if v, ok := funcInfos.Load(fn); ok {
		return v.(*funcInfo)
	}
	fi := &funcInfo{idx: map[ssa.Value]int{}}
	add := func(v ssa.Value) {
		fi.idx[v] = fi.n
		fi.n++
	}
	for _, p := range fn.Params {
		add(p)
	}
	for _, p := range fn.FreeVars {
		add(p)
	}
	for _, b := range fn.Blocks {
		for _, in := range b.Instrs {
			if v, ok := in.(ssa.Value); ok {
				add(v)
			}
		}
	}
	// may-be-read-later sets: registers used in any block reachable from b
	uses := make([][]int, len(fn.Blocks))
	for _, b := range fn.Blocks {
		for _, in := range b.Instrs {
			for _, op := range in.Operands(nil) {
				if *op == nil {
					continue
				}
				if r, ok := fi.idx[*op]; ok {
					uses[b.Index] = append(uses[b.Index], r)
				}
			}
		}
	}
	fi.live = make([][]bool, len(fn.Blocks))
	for _, b := range fn.Blocks {
		seen := make([]bool, len(fn.Blocks))
		lv := make([]bool, fi.n)
		stack := []*ssa.BasicBlock{b}
		for len(stack) > 0 {
			x := stack[len(stack)-1]
			stack = stack[:len(stack)-1]
			if seen[x.Index] {
				continue
			}
			seen[x.Index] = true
			for _, r := range uses[x.Index] {
				lv[r] = true
			}
			stack = append(stack, x.Succs...)
		}
		fi.live[b.Index] = lv
	}
	v, _ := funcInfos.LoadOrStore(fn, fi)
	return v.(*funcInfo)
}

func (s *State) pushFrame(fn *ssa.Function, args []Value, bind []Value, callerReg int) *Frame {
	if len(fn.Blocks) == 0 {
		panic(unsupported{"call of function without body: " + fn.String()})
	}
	if len(s.frames) > 200 {
		panic(unsupported{"call depth > 200 at " + fn.String()})
	}
	fi := infoOf(fn)
	f := &Frame{fn: fn, info: fi, env: make([]Value, fi.n), block: fn.Blocks[0], callerReg: callerReg}
	if len(args) != len(fn.Params) {
		panic(fmt.Sprintf("arity mismatch calling %s: %d args for %d params", fn, len(args), len(fn.Params)))
	}
	for i, p := range fn.Params {
		f.env[fi.idx[p]] = args[i]
	}
	for i, p := range fn.FreeVars {
		f.env[fi.idx[p]] = bind[i]
	}
	s.frames = append(s.frames, f)
	return f
}
