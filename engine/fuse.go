package main

// Short-circuit fusion: `a || b`, `a && b` chains compiled by go/ssa into If-blocks whose
// intermediate blocks are side-effect free are evaluated into a single Bool term instead of
// forking once per operand. Exact (no approximation): the intermediate blocks are executed
// speculatively and the fusion is abandoned if any of their instructions could crash or has an
// effect.

import (
	"go/token"

	"golang.org/x/tools/go/ssa"
)

func hasPhi(b *ssa.BasicBlock) bool {
	if len(b.Instrs) == 0 {
		return false
	}
	_, ok := b.Instrs[0].(*ssa.Phi)
	return ok
}

// pureBlock speculatively executes all instructions of b except the terminator. Returns false if
// an instruction is not provably pure and non-crashing in this state.
func (w *Worker) pureBlock(s *State, f *Frame, b *ssa.BasicBlock) (ok bool) {
	defer func() {
		if r := recover(); r != nil {
			switch r.(type) {
			case crash, unsupported, pathDead:
				ok = false
			default:
				panic(r)
			}
		}
	}()
	for _, in := range b.Instrs[:len(b.Instrs)-1] {
		switch x := in.(type) {
		case *ssa.DebugRef:
		case *ssa.BinOp:
			if x.Op == token.QUO || x.Op == token.REM {
				if y, isT := w.eval(s, f, x.Y).(*Term); !isT || !y.Const || y.U == 0 {
					return false
				}
			}
			w.set(f, x, w.binop(s, x.Op, x.X.Type(), w.eval(s, f, x.X), w.eval(s, f, x.Y), x.Y.Type()))
		case *ssa.UnOp:
			if x.Op == token.ARROW {
				return false
			}
			w.set(f, x, w.unop(s, x, w.eval(s, f, x.X)))
		case *ssa.FieldAddr:
			p := w.eval(s, f, x.X).(Ptr)
			if p.O == nil {
				return false
			}
			w.set(f, x, Ptr{p.O, extendPath(p.Path, x.Field)})
		case *ssa.Field:
			sv := w.eval(s, f, x.X).(*StructV)
			w.set(f, x, copyAgg(sv.F[x.Field]))
		case *ssa.Convert:
			w.set(f, x, w.convert(s, w.eval(s, f, x.X), x.X.Type(), x.Type()))
		case *ssa.ChangeType:
			w.set(f, x, w.eval(s, f, x.X))
		case *ssa.Extract:
			w.set(f, x, w.eval(s, f, x.Tuple).(TupleV)[x.Index])
		case *ssa.Lookup:
			if _, isMap := w.eval(s, f, x.X).(MapV); !isMap {
				return false
			}
			w.lookup(s, f, x)
		case *ssa.IndexAddr:
			idx, isT := w.eval(s, f, x.Index).(*Term)
			if !isT || !idx.Const {
				return false
			}
			adv := w.exec(s, f, x)
			_ = adv
		case *ssa.Call:
			b, isB := x.Call.Value.(*ssa.Builtin)
			if !isB || (b.Name() != "len" && b.Name() != "cap") {
				return false
			}
			var args []Value
			for _, a := range x.Call.Args {
				args = append(args, w.eval(s, f, a))
			}
			w.set(f, x, w.builtin(s, f, b, args, &x.Call))
		default:
			return false
		}
	}
	return true
}

// tryFuse handles the If at the end of f.block with symbolic condition c. Returns true if it
// completed the control transfer itself.
func (w *Worker) tryFuse(s *State, f *Frame, x *ssa.If, c *Term) bool {
	B := f.block
	T, F := B.Succs[0], B.Succs[1]
	cond := c
	cur := B
	fused := false
	for iter := 0; iter < 8; iter++ {
		// Pattern A (||): F is a pure single-pred block ending in If whose true target is T
		if len(F.Preds) == 1 && !hasPhi(T) && F != T {
			if if2, ok := F.Instrs[len(F.Instrs)-1].(*ssa.If); ok && F.Succs[0] == T && F.Succs[1] != F {
				if w.pureBlock(s, f, F) {
					if c2, ok := w.eval(s, f, if2.Cond).(*Term); ok {
						cond = w.tc.Or(cond, c2)
						cur = F
						F = F.Succs[1]
						fused = true
						continue
					}
				}
			}
		}
		// Pattern A' (&&): T is a pure single-pred block ending in If whose false target is F
		if len(T.Preds) == 1 && !hasPhi(F) && F != T {
			if if2, ok := T.Instrs[len(T.Instrs)-1].(*ssa.If); ok && T.Succs[1] == F && T.Succs[0] != T {
				if w.pureBlock(s, f, T) {
					if c2, ok := w.eval(s, f, if2.Cond).(*Term); ok {
						cond = w.tc.And(cond, c2)
						cur = T
						T = T.Succs[0]
						fused = true
						continue
					}
				}
			}
		}
		break
	}
	// Pattern B: value-producing diamond  cur: if cond goto X else J ; X: pure; jump J ; J: phis
	if w.fuseDiamond(s, f, cur, T, F, cond) {
		return true
	}
	if !fused {
		return false
	}
	if cond.Const {
		f.block = cur
		if cond.U == 1 {
			w.jump(s, f, T)
		} else {
			w.jump(s, f, F)
		}
		return true
	}
	taken := w.branch(s, cond)
	// the successor's phis (if any) refer to `cur` as predecessor
	f.block = cur
	if taken {
		w.jump(s, f, T)
	} else {
		w.jump(s, f, F)
	}
	return true
}

func (w *Worker) fuseDiamond(s *State, f *Frame, cur, T, F *ssa.BasicBlock, cond *Term) bool {
	for jIdx := 0; jIdx < 2; jIdx++ {
		J, next := T, F
		exit0 := cond
		if jIdx == 1 {
			J, next = F, T
			exit0 = w.tc.Not(cond)
		}
		if !hasPhi(J) || J == next {
			continue
		}
		chain := []*ssa.BasicBlock{cur}
		exits := []*Term{exit0}
		ok := true
		X := next
		for steps := 0; ; steps++ {
			if steps > 8 || len(X.Preds) != 1 || X == J || !w.pureBlock(s, f, X) {
				ok = false
				break
			}
			chain = append(chain, X)
			switch t := X.Instrs[len(X.Instrs)-1].(type) {
			case *ssa.Jump:
				if X.Succs[0] != J {
					ok = false
				}
				exits = append(exits, w.tc.True)
			case *ssa.If:
				c2, isT := w.eval(s, f, t.Cond).(*Term)
				if !isT {
					ok = false
					break
				}
				if X.Succs[0] == J && X.Succs[1] != J {
					exits = append(exits, c2)
					X = X.Succs[1]
					continue
				} else if X.Succs[1] == J && X.Succs[0] != J {
					exits = append(exits, w.tc.Not(c2))
					X = X.Succs[0]
					continue
				}
				ok = false
			default:
				ok = false
			}
			break
		}
		if !ok || len(J.Preds) != len(chain) {
			continue
		}
		idx := make([]int, len(chain))
		for i, b := range chain {
			idx[i] = -1
			for k, p := range J.Preds {
				if p == b {
					idx[i] = k
				}
			}
			if idx[i] < 0 {
				ok = false
			}
		}
		if !ok {
			continue
		}
		var phis []*ssa.Phi
		for _, in := range J.Instrs {
			p, isPhi := in.(*ssa.Phi)
			if !isPhi {
				break
			}
			phis = append(phis, p)
		}
		vals := make([]Value, len(phis))
		for pi, p := range phis {
			n := len(chain) - 1
			v, isT := w.eval(s, f, p.Edges[idx[n]]).(*Term)
			if !isT {
				ok = false
				break
			}
			for i := n - 1; i >= 0; i-- {
				e, isT := w.eval(s, f, p.Edges[idx[i]]).(*Term)
				if !isT {
					ok = false
					break
				}
				v = w.tc.Ite(exits[i], e, v)
			}
			vals[pi] = v
		}
		if !ok {
			continue
		}
		for i, p := range phis {
			w.set(f, p, vals[i])
		}
		f.prev = chain[len(chain)-1]
		f.block = J
		f.ip = len(phis)
		return true
	}
	return false
}
