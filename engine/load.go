package main

import (
	"fmt"
	"go/token"
	"os"
	"path/filepath"
	"sort"
	"strings"

	"golang.org/x/tools/go/packages"
	"golang.org/x/tools/go/ssa"
	"golang.org/x/tools/go/ssa/ssautil"
)

type Program struct {
	prog   *ssa.Program
	fset   *token.FileSet
	byPath map[string]*ssa.Package
	files  map[string]string // function name -> file
}

// bodyPkgs are the packages whose function bodies are built (executed rather than stubbed).
var bodyPkgPrefixes = []string{"tkestack.io/kvass/"}
var bodyPkgExact = map[string]bool{
	"sort": true,
	"github.com/prometheus/prometheus/pkg/labels":   true,
	"github.com/prometheus/prometheus/model/labels": true,
	"github.com/prometheus/prometheus/scrape":       true,
}

// overlayFor maps /verif/harness/<dir>/<file>.go to /repo/pkg/<dir>/zz_verif_<file>.go
func overlayFor(repo, harnessDir string) (map[string][]byte, error) {
	ov := map[string][]byte{}
	err := filepath.Walk(harnessDir, func(p string, info os.FileInfo, err error) error {
		if err != nil || info.IsDir() || !strings.HasSuffix(p, ".go") {
			return err
		}
		rel, _ := filepath.Rel(harnessDir, p)
		dir, file := filepath.Split(rel)
		data, err := os.ReadFile(p)
		if err != nil {
			return err
		}
		ov[filepath.Join(repo, "pkg", dir, "zz_verif_"+file)] = data
		return nil
	})
	return ov, err
}

func loadProgram(repo, harnessDir string, patterns []string) (*Program, error) {
	ov, err := overlayFor(repo, harnessDir)
	if err != nil {
		return nil, err
	}
	// _test.go twins are for the native build only
	for k := range ov {
		if strings.HasSuffix(k, "_test.go") {
			delete(ov, k)
		}
	}
	cfg := &packages.Config{
		Mode:       packages.LoadAllSyntax,
		Dir:        repo,
		Overlay:    ov,
		BuildFlags: []string{"-tags=verif", "-mod=mod"},
		Env:        append(os.Environ(), "GOFLAGS=-mod=mod", "GOPROXY=off", "GOSUMDB=off", "GOTOOLCHAIN=local"),
	}
	pkgs, err := packages.Load(cfg, patterns...)
	if err != nil {
		return nil, err
	}
	var errs []string
	packages.Visit(pkgs, nil, func(p *packages.Package) {
		for _, e := range p.Errors {
			if strings.HasPrefix(p.PkgPath, "tkestack.io/kvass") {
				errs = append(errs, e.Error())
			}
		}
	})
	if len(errs) > 0 {
		sort.Strings(errs)
		return nil, fmt.Errorf("HARNESS-BUILD-FAILURE:\n%s", strings.Join(errs, "\n"))
	}
	prog, _ := ssautil.AllPackages(pkgs, ssa.InstantiateGenerics)
	P := &Program{prog: prog, byPath: map[string]*ssa.Package{}}
	for _, p := range prog.AllPackages() {
		path := p.Pkg.Path()
		P.byPath[path] = p
		build := bodyPkgExact[path]
		for _, pre := range bodyPkgPrefixes {
			if strings.HasPrefix(path, pre) {
				build = true
			}
		}
		if build {
			p.Build()
		}
	}
	if len(pkgs) > 0 {
		P.fset = pkgs[0].Fset
	}
	return P, nil
}

// funcByName resolves "pkg/path.Func" or "(*pkg/path.T).Method" / "(pkg/path.T).Method".
func (p *Program) funcByName(name string) *ssa.Function {
	if strings.HasPrefix(name, "(") {
		end := strings.Index(name, ").")
		if end < 0 {
			return nil
		}
		recv, meth := name[1:end], name[end+2:]
		ptr := strings.HasPrefix(recv, "*")
		recv = strings.TrimPrefix(recv, "*")
		dot := strings.LastIndex(recv, ".")
		pkg := p.byPath[recv[:dot]]
		if pkg == nil {
			return nil
		}
		t := pkg.Type(recv[dot+1:])
		if t == nil {
			return nil
		}
		_ = ptr
		for _, ptrRecv := range []bool{true, false} {
			var ms = p.prog.MethodSets.MethodSet(t.Type())
			if ptrRecv {
				ms = p.prog.MethodSets.MethodSet(typesPointer(t.Type()))
			}
			for i := 0; i < ms.Len(); i++ {
				if ms.At(i).Obj().Name() == meth {
					return p.prog.MethodValue(ms.At(i))
				}
			}
		}
		return nil
	}
	dot := strings.LastIndex(name, ".")
	if dot < 0 {
		return nil
	}
	pkg := p.byPath[name[:dot]]
	if pkg == nil {
		return nil
	}
	return pkg.Func(name[dot+1:])
}
