package main

import (
	"encoding/json"
	"flag"
	"fmt"
	"os"
	"strconv"
	"strings"
	"time"
)

func main() {
	if len(os.Args) < 2 {
		fmt.Fprintln(os.Stderr, "usage: symgo run|check ...")
		os.Exit(2)
	}
	switch os.Args[1] {
	case "run":
		os.Exit(cmdRun(os.Args[2:]))
	case "check":
		os.Exit(cmdCheck(os.Args[2:]))
	default:
		fmt.Fprintln(os.Stderr, "unknown command", os.Args[1])
		os.Exit(2)
	}
}

func cmdRun(argv []string) int {
	fs := flag.NewFlagSet("run", flag.ExitOnError)
	repo := fs.String("repo", "/repo", "repository")
	harness := fs.String("harness", "/verif/harness", "harness dir")
	entry := fs.String("entry", "", "entry function pkg/path.Func")
	args := fs.String("args", "", "comma separated int args")
	unwind := fs.Int("unwind", 12, "loop unwinding bound")
	workers := fs.Int("workers", 16, "workers")
	split := fs.Int("split", 0, "Choose depth to distribute")
	fuse := fs.Bool("fuse", true, "short-circuit fusion")
	xcheck := fs.Bool("xcheck", false, "cross-check property queries on cvc5")
	merge := fs.String("merge", "", "comma separated function names at whose return states are merged")
	timeout := fs.Duration("timeout", 0, "overall deadline")
	pkgs := fs.String("pkgs", "", "packages to load (default: package of entry)")
	known := fs.String("known", "", "comma separated known finding ids")
	dump := fs.String("json", "", "write result JSON")
	inputs := fs.String("inputs", "", "JSON file with concrete inputs (concrete mode: prints traces)")
	forkstats := fs.Bool("forkstats", false, "print fork sites")
	subst := fs.String("subst", "", "a=b,c=d function substitutions")
	props := fs.String("props", "", "comma separated property ids enabled in the harness")
	fs.Parse(argv)
	var ia []int
	if *args != "" {
		for _, a := range strings.Split(*args, ",") {
			v, _ := strconv.Atoi(a)
			ia = append(ia, v)
		}
	}
	pats := []string{}
	if *pkgs != "" {
		pats = strings.Split(*pkgs, ",")
	} else {
		pats = []string{(*entry)[:strings.LastIndex(*entry, ".")]}
	}
	t0 := time.Now()
	p, err := loadProgram(*repo, *harness, pats)
	if err != nil {
		fmt.Fprintln(os.Stderr, err)
		return 2
	}
	fmt.Fprintf(os.Stderr, "loaded in %.1fs\n", time.Since(t0).Seconds())
	spec := RunSpec{Entry: *entry, Args: ia, Unwind: *unwind, Workers: *workers, Split: *split, Fuse: *fuse, XCheck: *xcheck, Timeout: *timeout,
		Known: map[string]bool{}}
	spec.ForkStats = *forkstats
	if *subst != "" {
		spec.Subst = map[string]string{}
		for _, kv := range strings.Split(*subst, ",") {
			p := strings.SplitN(kv, "=", 2)
			spec.Subst[p[0]] = p[1]
		}
	}
	if *props != "" {
		spec.Props = map[string]bool{}
		for _, k := range strings.Split(*props, ",") {
			spec.Props[k] = true
		}
	}
	if *merge != "" {
		spec.MergeAt = strings.Split(*merge, ",")
	}
	for _, k := range strings.Split(*known, ",") {
		if k != "" {
			spec.Known[k] = true
		}
	}
	if *inputs != "" {
		b, err := os.ReadFile(*inputs)
		if err != nil {
			fmt.Fprintln(os.Stderr, err)
			return 2
		}
		spec.Concrete = map[string]interface{}{}
		if err := json.Unmarshal(b, &spec.Concrete); err != nil {
			fmt.Fprintln(os.Stderr, err)
			return 2
		}
		spec.Workers = 1
	}
	res, err := p.Run(spec)
	if err != nil {
		fmt.Fprintln(os.Stderr, err)
		return 2
	}
	fmt.Print(res.Summary())
	for i, tr := range res.Traces {
		fmt.Printf("  trace %d: %v\n", i, tr)
	}
	if *dump != "" {
		b, _ := json.MarshalIndent(res.Stats, "", " ")
		os.WriteFile(*dump, b, 0644)
	}
	if len(res.Stats.Inconclusive) > 0 {
		return 2
	}
	if len(res.Stats.Violations) > 0 {
		return 1
	}
	return 0
}
