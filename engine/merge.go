package main

// Merge-on-equal-state: states that return from a designated function are parked; when the work
// stack is empty, parked states with identical canonical form (heap shape, symbolic values,
// frames, recordings) are merged by disjoining their path conditions. Exact, hence sound.

import (
	"fmt"
	"os"
	"sync"
	"time"
	"sort"
	"strings"
)

var heapDebugOnce sync.Once

func (w *Worker) park(s *State, at string) {
	if os.Getenv("SYMGO_DEBUG_HEAP") != "" {
		heapDebugOnce.Do(func() {
			c := &cloner{memo: map[*Obj]*Obj{}}
			t0 := time.Now()
			n := s.clone()
			_ = n
			for _, f := range s.frames {
				c.vals(f.env)
			}
			for _, o := range s.globals {
				c.obj(o)
			}
			k := w.canon(s)
			fmt.Fprintf(os.Stderr, "HEAP objects=%d globals=%d frames=%d clone+canon=%v canonlen=%d\n", len(c.memo), len(s.globals), len(s.frames), time.Since(t0), len(k))
			big := map[string]int{}
			for g, o := range s.globals {
				cc := &cloner{memo: map[*Obj]*Obj{}}
				cc.obj(o)
				big[g.String()] = len(cc.memo)
			}
			for g, n := range big {
				if n > 20 {
					fmt.Fprintf(os.Stderr, "  global %s reaches %d objects\n", g, n)
				}
			}
		})
	}
	if w.waiting == nil {
		w.waiting = map[string][]*State{}
	}
	s.status = "parked"
	s.merged = true
	w.waiting[at] = append(w.waiting[at], s)
}

func (w *Worker) canon(s *State) string {
	r := &renderer{tc: w.tc, ids: map[*Obj]int{}}
	for _, f := range s.frames {
		fmt.Fprintf(&r.sb, "F %s b%d i%d c%v d%v [", f.fn.String(), f.block.Index, f.ip, f.catch, f.discard)
		lv := f.info.live[f.block.Index]
		for i, v := range f.env {
			if !lv[i] {
				r.sb.WriteString("-|") // dead register: cannot influence the rest of the run
				continue
			}
			r.val(v)
			r.sb.WriteByte('|')
		}
		r.sb.WriteString("] defers:")
		for _, d := range f.defers {
			r.val(d.fn)
			for _, a := range d.args {
				r.val(a)
			}
		}
		// loop counters are part of the state (unwinding bound)
		var ks []int
		for k := range f.loops {
			ks = append(ks, k)
		}
		sort.Ints(ks)
		for _, k := range ks {
			fmt.Fprintf(&r.sb, " L%d=%d", k, f.loops[k])
		}
		r.sb.WriteByte('\n')
	}
	var gs []string
	for g := range s.globals {
		// globals of packages whose code is not executed are never written (stubs do not touch
		// them): they are equal in all states and are left out of the canonical form
		if g.Pkg == nil || !strings.HasPrefix(g.Pkg.Pkg.Path(), "tkestack.io/kvass/") {
			continue
		}
		gs = append(gs, g.String())
	}
	sort.Strings(gs)
	for _, name := range gs {
		for g, o := range s.globals {
			if g.String() == name {
				r.sb.WriteString("G " + name + "=")
				r.obj(o)
				r.sb.WriteByte('\n')
			}
		}
	}
	var es []string
	for e := range s.edges {
		es = append(es, e)
	}
	sort.Strings(es)
	r.sb.WriteString("E " + strings.Join(es, ",") + "\n")
	if s.clock != nil {
		fmt.Fprintf(&r.sb, "C t%d %d\n", s.clock.ID, s.nclock)
	}
	var lk []string
	for k, v := range s.locks {
		if v != 0 {
			lk = append(lk, fmt.Sprintf("%s=%d", k, v))
		}
	}
	sort.Strings(lk)
	r.sb.WriteString("L " + strings.Join(lk, ",") + "\n")
	fmt.Fprintf(&r.sb, "O %p A %p\n", s.obs, s.abst)
	var ch []string
	for k, v := range s.chosen {
		ch = append(ch, fmt.Sprintf("%s=%d", k, v))
	}
	sort.Strings(ch)
	r.sb.WriteString("CH " + strings.Join(ch, ",") + "\n")
	for _, p := range s.pending {
		fmt.Fprintf(&r.sb, "P %s t%d\n", p.id, p.pred.ID)
	}
	return r.sb.String()
}

func (w *Worker) releaseMerged() bool {
	if len(w.waiting) == 0 {
		return false
	}
	var names []string
	for k := range w.waiting {
		names = append(names, k)
	}
	sort.Strings(names)
	for _, name := range names {
		group := w.waiting[name]
		byKey := map[string][]*State{}
		var order []string
		for _, s := range group {
			k := w.canon(s)
			if _, ok := byKey[k]; !ok {
				order = append(order, k)
			}
			byKey[k] = append(byKey[k], s)
		}
		for _, k := range order {
			ss := byKey[k]
			m := ss[0]
			if len(ss) > 1 {
				w.st.Merged += len(ss) - 1
				// common ancestor of all path conditions
				anc := ss[0].pc
				for _, o := range ss[1:] {
					anc = commonAncestor(anc, o.pc)
				}
				var disj []*Term
				for _, o := range ss {
					var conj []*Term
					for q := o.pc; q != anc; q = q.parent {
						conj = append(conj, q.lit)
					}
					disj = append(disj, w.tc.And(conj...))
				}
				d := w.tc.Or(disj...)
				m.pc = anc
				if !d.IsTrue() {
					m.pc = anc.push(d)
				}
				for _, o := range ss[1:] {
					for c := range o.covers {
						m.covers[c] = true
					}
					for _, in := range o.inputs {
						if !m.inputSet[in.ID] {
							m.inputSet[in.ID] = true
							m.inputs = append(m.inputs, in)
						}
					}
					if o.forks > m.forks {
						m.forks = o.forks
					}
				}
				m.choices = append(m.choices, choiceRec{Kind: "merged", Name: name, Pick: 0, Of: len(ss)})
			}
			m.status = "running"
			w.stack = append(w.stack, m)
		}
	}
	w.waiting = nil
	return len(w.stack) > 0
}

func commonAncestor(a, b *PC) *PC {
	for a != nil && b != nil && a != b {
		if a.n > b.n {
			a = a.parent
		} else if b.n > a.n {
			b = b.parent
		} else {
			a, b = a.parent, b.parent
		}
	}
	if a != b {
		return nil
	}
	return a
}
