package main

// Hash-consed SMT terms with constant folding. One TermCtx per worker (not shared between goroutines).

import (
	"fmt"
	"math"
	"math/big"
	"sort"
	"strconv"
	"strings"
)

type SortKind int

const (
	SBool SortKind = iota
	SBV
	SFP  // float64
	SStr // string atom, encoded as Int
)

type Sort struct {
	K SortKind
	W int // bit width for SBV
}

func (s Sort) String() string {
	switch s.K {
	case SBool:
		return "Bool"
	case SBV:
		return fmt.Sprintf("(_ BitVec %d)", s.W)
	case SFP:
		return "(_ FloatingPoint 11 53)"
	case SStr:
		return "Int"
	}
	return "?"
}

var (
	sortBool = Sort{K: SBool}
	sortFP   = Sort{K: SFP}
	sortStr  = Sort{K: SStr}
)

func bv(w int) Sort { return Sort{K: SBV, W: w} }

type Term struct {
	ID    int
	Op    string // "const", "var", or SMT operator
	Args  []*Term
	Sort  Sort
	Const bool
	U     uint64  // BV const (masked) / Bool const (0/1)
	F     float64 // FP const
	S     string  // Str const / var name / indexed-op parameter
	Emit  int     // solver generation in which it was emitted (per solver)
	HasFP bool    // a floating-point operation occurs in the term's DAG
}

func (t *Term) IsConst() bool { return t.Const }
func (t *Term) IsTrue() bool  { return t.Const && t.Sort.K == SBool && t.U == 1 }
func (t *Term) IsFalse() bool { return t.Const && t.Sort.K == SBool && t.U == 0 }

type TermCtx struct {
	tab     map[string]*Term
	terms   []*Term
	strIDs  map[string]int
	strs    []string
	vars    []*Term
	varSeq  int
	nFresh  int
	True    *Term
	False   *Term
	strVars []*Term
}

func NewTermCtx() *TermCtx {
	c := &TermCtx{tab: map[string]*Term{}, strIDs: map[string]int{}}
	c.True = c.Bool(true)
	c.False = c.Bool(false)
	return c
}

func (c *TermCtx) intern(key string, mk func() *Term) *Term {
	if t, ok := c.tab[key]; ok {
		return t
	}
	t := mk()
	t.ID = len(c.terms)
	c.terms = append(c.terms, t)
	c.tab[key] = t
	return t
}

func mask(w int) uint64 {
	if w >= 64 {
		return ^uint64(0)
	}
	return (uint64(1) << uint(w)) - 1
}

func (c *TermCtx) Bool(b bool) *Term {
	u := uint64(0)
	if b {
		u = 1
	}
	return c.intern(fmt.Sprintf("cb%d", u), func() *Term { return &Term{Op: "const", Sort: sortBool, Const: true, U: u} })
}

func (c *TermCtx) BV(w int, v uint64) *Term {
	v &= mask(w)
	return c.intern(fmt.Sprintf("cv%d:%d", w, v), func() *Term { return &Term{Op: "const", Sort: bv(w), Const: true, U: v} })
}

func (c *TermCtx) FP(f float64) *Term {
	return c.intern(fmt.Sprintf("cf%x", math.Float64bits(f)), func() *Term { return &Term{Op: "const", Sort: sortFP, Const: true, F: f} })
}

func (c *TermCtx) Str(s string) *Term {
	return c.intern("cs"+s, func() *Term {
		if _, ok := c.strIDs[s]; !ok {
			c.strIDs[s] = len(c.strs)
			c.strs = append(c.strs, s)
		}
		return &Term{Op: "const", Sort: sortStr, Const: true, S: s}
	})
}

// Var creates (or returns) a named free variable.
func (c *TermCtx) Var(name string, s Sort) *Term {
	return c.intern("v"+name+"|"+s.String(), func() *Term {
		t := &Term{Op: "var", Sort: s, S: name}
		c.vars = append(c.vars, t)
		if s.K == SStr {
			c.strVars = append(c.strVars, t)
		}
		return t
	})
}

func (c *TermCtx) Fresh(prefix string, s Sort) *Term {
	c.nFresh++
	return c.Var(fmt.Sprintf("%s!%d", prefix, c.nFresh), s)
}

func (c *TermCtx) mk(op string, s Sort, param string, args ...*Term) *Term {
	var sb strings.Builder
	sb.WriteString(op)
	sb.WriteByte('|')
	sb.WriteString(param)
	for _, a := range args {
		sb.WriteByte(',')
		sb.WriteString(strconv.Itoa(a.ID))
	}
	return c.intern(sb.String(), func() *Term {
		t := &Term{Op: op, Sort: s, Args: args, S: param, HasFP: s.K == SFP}
		for _, a := range args {
			if a.HasFP || a.Sort.K == SFP {
				t.HasFP = true
			}
		}
		return t
	})
}

func signExt(v uint64, w int) int64 {
	if w >= 64 {
		return int64(v)
	}
	sh := uint(64 - w)
	return int64(v<<sh) >> sh
}

// ---------- boolean ----------

func (c *TermCtx) Not(a *Term) *Term {
	if a.Const {
		return c.Bool(a.U == 0)
	}
	if a.Op == "not" {
		return a.Args[0]
	}
	return c.mk("not", sortBool, "", a)
}

func (c *TermCtx) And(as ...*Term) *Term {
	var flat []*Term
	seen := map[int]bool{}
	var add func(t *Term) bool
	add = func(t *Term) bool {
		if t.Const {
			return t.U == 1
		}
		if t.Op == "and" {
			for _, x := range t.Args {
				if !add(x) {
					return false
				}
			}
			return true
		}
		if !seen[t.ID] {
			seen[t.ID] = true
			flat = append(flat, t)
		}
		return true
	}
	for _, a := range as {
		if !add(a) {
			return c.False
		}
	}
	for _, t := range flat {
		if t.Op == "not" && seen[t.Args[0].ID] {
			return c.False
		}
	}
	if len(flat) == 0 {
		return c.True
	}
	if len(flat) == 1 {
		return flat[0]
	}
	sort.Slice(flat, func(i, j int) bool { return flat[i].ID < flat[j].ID })
	return c.mk("and", sortBool, "", flat...)
}

func (c *TermCtx) Or(as ...*Term) *Term {
	var flat []*Term
	seen := map[int]bool{}
	var add func(t *Term) bool
	add = func(t *Term) bool { // returns false if result is constant true
		if t.Const {
			return t.U == 0
		}
		if t.Op == "or" {
			for _, x := range t.Args {
				if !add(x) {
					return false
				}
			}
			return true
		}
		if !seen[t.ID] {
			seen[t.ID] = true
			flat = append(flat, t)
		}
		return true
	}
	for _, a := range as {
		if !add(a) {
			return c.True
		}
	}
	for _, t := range flat {
		if t.Op == "not" && seen[t.Args[0].ID] {
			return c.True
		}
	}
	if len(flat) == 0 {
		return c.False
	}
	if len(flat) == 1 {
		return flat[0]
	}
	sort.Slice(flat, func(i, j int) bool { return flat[i].ID < flat[j].ID })
	return c.mk("or", sortBool, "", flat...)
}

func (c *TermCtx) Implies(a, b *Term) *Term { return c.Or(c.Not(a), b) }

func (c *TermCtx) Ite(cond, a, b *Term) *Term {
	if cond.Const {
		if cond.U == 1 {
			return a
		}
		return b
	}
	if a == b {
		return a
	}
	if a.Sort.K == SBool {
		if a.IsTrue() && b.IsFalse() {
			return cond
		}
		if a.IsFalse() && b.IsTrue() {
			return c.Not(cond)
		}
		if a.IsTrue() {
			return c.Or(cond, b)
		}
		if a.IsFalse() {
			return c.And(c.Not(cond), b)
		}
		if b.IsTrue() {
			return c.Or(c.Not(cond), a)
		}
		if b.IsFalse() {
			return c.And(cond, a)
		}
	}
	return c.mk("ite", a.Sort, "", cond, a, b)
}

func (c *TermCtx) Eq(a, b *Term) *Term {
	if a == b {
		return c.True
	}
	if a.Sort != b.Sort {
		panic(fmt.Sprintf("Eq sort mismatch %v %v (%s, %s)", a.Sort, b.Sort, c.Show(a), c.Show(b)))
	}
	if a.Const && b.Const {
		switch a.Sort.K {
		case SFP:
			return c.Bool(a.F == b.F)
		case SStr:
			return c.Bool(a.S == b.S)
		default:
			return c.Bool(a.U == b.U)
		}
	}
	if a.Sort.K == SBool {
		if a.Const {
			a, b = b, a
		}
		if b.Const {
			if b.U == 1 {
				return a
			}
			return c.Not(a)
		}
	}
	if a.Sort.K == SFP {
		if a.ID > b.ID {
			a, b = b, a
		}
		return c.mk("fp.eq", sortBool, "", a, b)
	}
	if a.ID > b.ID {
		a, b = b, a
	}
	return c.mk("=", sortBool, "", a, b)
}

// ---------- bit-vectors ----------

func (c *TermCtx) bvBin(op string, a, b *Term) *Term {
	w := a.Sort.W
	if a.Sort != b.Sort {
		panic(fmt.Sprintf("bv sort mismatch in %s: %v %v", op, a.Sort, b.Sort))
	}
	if a.Const && b.Const {
		x, y := a.U, b.U
		sx, sy := signExt(x, w), signExt(y, w)
		switch op {
		case "bvadd":
			return c.BV(w, x+y)
		case "bvsub":
			return c.BV(w, x-y)
		case "bvmul":
			return c.BV(w, x*y)
		case "bvand":
			return c.BV(w, x&y)
		case "bvor":
			return c.BV(w, x|y)
		case "bvxor":
			return c.BV(w, x^y)
		case "bvudiv":
			if y != 0 {
				return c.BV(w, x/y)
			}
		case "bvurem":
			if y != 0 {
				return c.BV(w, x%y)
			}
		case "bvsdiv":
			if y != 0 {
				if sy == -1 {
					return c.BV(w, uint64(-sx))
				}
				return c.BV(w, uint64(sx/sy))
			}
		case "bvsrem":
			if y != 0 {
				if sy == -1 {
					return c.BV(w, 0)
				}
				return c.BV(w, uint64(sx%sy))
			}
		case "bvshl":
			if y >= uint64(w) {
				return c.BV(w, 0)
			}
			return c.BV(w, x<<y)
		case "bvlshr":
			if y >= uint64(w) {
				return c.BV(w, 0)
			}
			return c.BV(w, x>>y)
		case "bvashr":
			if y >= uint64(w) {
				y = uint64(w - 1)
			}
			return c.BV(w, uint64(sx>>y))
		}
	}
	switch op {
	case "bvadd":
		return c.linear(a, 1, b, 1)
	case "bvsub":
		return c.linear(a, 1, b, ^uint64(0))
	case "bvmul":
		if a.Const {
			a, b = b, a
		}
		if b.Const && b.U == 1 {
			return a
		}
		if b.Const && b.U == 0 {
			return b
		}
		if !b.Const && a.ID > b.ID {
			a, b = b, a
		}
	case "bvand", "bvor", "bvxor":
		if a.ID > b.ID {
			a, b = b, a
		}
	case "bvsdiv", "bvudiv":
		if b.Const && b.U == 1 {
			return a
		}
	}
	return c.mk(op, a.Sort, "", a, b)
}

// linear builds ca*a + cb*b in canonical form: a sorted sum of distinct non-constant leaves with
// constant coefficients plus a constant (arithmetic modulo 2^w is a commutative ring, so the
// normalisation is exact). It makes x - (x - y) syntactically equal to y.
func (c *TermCtx) linear(a *Term, ca uint64, b *Term, cb uint64) *Term {
	w := a.Sort.W
	m := mask(w)
	coef := map[*Term]uint64{}
	var order []*Term
	var k uint64
	var walk func(t *Term, f uint64)
	walk = func(t *Term, f uint64) {
		f &= m
		if f == 0 {
			return
		}
		switch {
		case t.Const:
			k += f * t.U
		case t.Op == "bvadd":
			for _, x := range t.Args {
				walk(x, f)
			}
		case t.Op == "bvneg":
			walk(t.Args[0], (^f+1)&m)
		case t.Op == "bvmul" && t.Args[1].Const:
			walk(t.Args[0], f*t.Args[1].U)
		default:
			if _, ok := coef[t]; !ok {
				order = append(order, t)
			}
			coef[t] = (coef[t] + f) & m
		}
	}
	walk(a, ca)
	walk(b, cb)
	k &= m
	var leaves []*Term
	sort.Slice(order, func(i, j int) bool { return order[i].ID < order[j].ID })
	for _, t := range order {
		f := coef[t]
		switch {
		case f == 0:
		case f == 1:
			leaves = append(leaves, t)
		case f == m:
			leaves = append(leaves, c.mk("bvneg", t.Sort, "", t))
		default:
			leaves = append(leaves, c.mk("bvmul", t.Sort, "", t, c.BV(w, f)))
		}
	}
	if k != 0 {
		leaves = append(leaves, c.BV(w, k))
	}
	if len(leaves) == 0 {
		return c.BV(w, 0)
	}
	if len(leaves) == 1 {
		return leaves[0]
	}
	return c.mk("bvadd", a.Sort, "", leaves...)
}

func (c *TermCtx) Add(a, b *Term) *Term { return c.bvBin("bvadd", a, b) }
func (c *TermCtx) Sub(a, b *Term) *Term { return c.bvBin("bvsub", a, b) }
func (c *TermCtx) Neg(a *Term) *Term    { return c.bvBin("bvsub", c.BV(a.Sort.W, 0), a) }
func (c *TermCtx) BvNot(a *Term) *Term {
	if a.Const {
		return c.BV(a.Sort.W, ^a.U)
	}
	return c.mk("bvnot", a.Sort, "", a)
}

func (c *TermCtx) Cmp(op string, a, b *Term) *Term {
	if a.Sort != b.Sort {
		panic(fmt.Sprintf("cmp sort mismatch %s: %v %v", op, a.Sort, b.Sort))
	}
	w := a.Sort.W
	if a.Const && b.Const {
		x, y := a.U, b.U
		sx, sy := signExt(x, w), signExt(y, w)
		switch op {
		case "bvult":
			return c.Bool(x < y)
		case "bvule":
			return c.Bool(x <= y)
		case "bvugt":
			return c.Bool(x > y)
		case "bvuge":
			return c.Bool(x >= y)
		case "bvslt":
			return c.Bool(sx < sy)
		case "bvsle":
			return c.Bool(sx <= sy)
		case "bvsgt":
			return c.Bool(sx > sy)
		case "bvsge":
			return c.Bool(sx >= sy)
		}
	}
	if a == b {
		switch op {
		case "bvult", "bvugt", "bvslt", "bvsgt":
			return c.False
		default:
			return c.True
		}
	}
	// normalise: only bvult, bvule, bvslt, bvsle
	switch op {
	case "bvugt":
		return c.Cmp("bvult", b, a)
	case "bvuge":
		return c.Cmp("bvule", b, a)
	case "bvsgt":
		return c.Cmp("bvslt", b, a)
	case "bvsge":
		return c.Cmp("bvsle", b, a)
	}
	// a <=u b  ==  not (b <u a)
	switch op {
	case "bvule":
		return c.Not(c.Cmp("bvult", b, a))
	case "bvsle":
		return c.Not(c.Cmp("bvslt", b, a))
	}
	if op == "bvult" && b.Const && b.U == 0 {
		return c.False
	}
	return c.mk(op, sortBool, "", a, b)
}

func (c *TermCtx) Extract(hi, lo int, a *Term) *Term {
	if lo == 0 && hi == a.Sort.W-1 {
		return a
	}
	if a.Const {
		return c.BV(hi-lo+1, a.U>>uint(lo))
	}
	return c.mk("extract", bv(hi-lo+1), fmt.Sprintf("%d %d", hi, lo), a)
}

func (c *TermCtx) ZeroExt(to int, a *Term) *Term {
	if to == a.Sort.W {
		return a
	}
	if a.Const {
		return c.BV(to, a.U)
	}
	return c.mk("zero_extend", bv(to), strconv.Itoa(to-a.Sort.W), a)
}

func (c *TermCtx) SignExt(to int, a *Term) *Term {
	if to == a.Sort.W {
		return a
	}
	if a.Const {
		return c.BV(to, uint64(signExt(a.U, a.Sort.W)))
	}
	return c.mk("sign_extend", bv(to), strconv.Itoa(to-a.Sort.W), a)
}

// ---------- floating point ----------

func (c *TermCtx) FPBin(op string, a, b *Term) *Term {
	if a.Const && b.Const {
		switch op {
		case "fp.add":
			return c.FP(a.F + b.F)
		case "fp.sub":
			return c.FP(a.F - b.F)
		case "fp.mul":
			return c.FP(a.F * b.F)
		case "fp.div":
			return c.FP(a.F / b.F)
		}
	}
	return c.mk(op, sortFP, "", a, b)
}

func (c *TermCtx) FPCmp(op string, a, b *Term) *Term {
	if a.Const && b.Const {
		switch op {
		case "fp.lt":
			return c.Bool(a.F < b.F)
		case "fp.leq":
			return c.Bool(a.F <= b.F)
		case "fp.gt":
			return c.Bool(a.F > b.F)
		case "fp.geq":
			return c.Bool(a.F >= b.F)
		case "fp.eq":
			return c.Bool(a.F == b.F)
		}
	}
	return c.mk(op, sortBool, "", a, b)
}

func (c *TermCtx) FPNeg(a *Term) *Term {
	if a.Const {
		return c.FP(-a.F)
	}
	return c.mk("fp.neg", sortFP, "", a)
}

// IntToFP converts a bit-vector (signed or unsigned) to float64, round-nearest-even (Go semantics).
func (c *TermCtx) IntToFP(a *Term, signed bool) *Term {
	if a.Const {
		if signed {
			return c.FP(float64(signExt(a.U, a.Sort.W)))
		}
		return c.FP(float64(a.U))
	}
	if signed {
		return c.mk("to_fp_s", sortFP, "", a)
	}
	return c.mk("to_fp_u", sortFP, "", a)
}

// FPToInt converts float64 to a bit-vector with truncation toward zero. Out-of-range results are
// implementation-specific in Go and unspecified in SMT-LIB; callers must keep values in range.
func (c *TermCtx) FPToInt(a *Term, w int, signed bool) *Term {
	if a.Const {
		if signed {
			return c.BV(w, uint64(int64(a.F)))
		}
		return c.BV(w, uint64(a.F))
	}
	if signed {
		return c.mk("fp_to_sbv", bv(w), strconv.Itoa(w), a)
	}
	return c.mk("fp_to_ubv", bv(w), strconv.Itoa(w), a)
}

// UF application: uninterpreted function over terms
func (c *TermCtx) UF(name string, res Sort, args ...*Term) *Term {
	return c.mk("uf", res, name, args...)
}

// ---------- printing ----------

func (c *TermCtx) strID(s string) int {
	id, ok := c.strIDs[s]
	if !ok {
		id = len(c.strs)
		c.strIDs[s] = id
		c.strs = append(c.strs, s)
	}
	return id
}

func (c *TermCtx) constSMT(t *Term) string {
	switch t.Sort.K {
	case SBool:
		if t.U == 1 {
			return "true"
		}
		return "false"
	case SBV:
		if t.Sort.W%4 == 0 {
			return fmt.Sprintf("#x%0*x", t.Sort.W/4, t.U)
		}
		return fmt.Sprintf("#b%0*b", t.Sort.W, t.U)
	case SFP:
		b := math.Float64bits(t.F)
		return fmt.Sprintf("(fp #b%01b #b%011b #x%013x)", b>>63, (b>>52)&0x7ff, b&((1<<52)-1))
	case SStr:
		return strconv.Itoa(c.strID(t.S))
	}
	return "?"
}

func smtName(t *Term) string {
	if t.Op == "var" {
		return "|" + t.S + "|"
	}
	return "t" + strconv.Itoa(t.ID)
}

// ref returns how a term is referenced inside another definition.
func (c *TermCtx) ref(t *Term) string {
	if t.Const {
		return c.constSMT(t)
	}
	return smtName(t)
}

// body returns the SMT expression of a non-const, non-var term over references to its args.
func (c *TermCtx) body(t *Term) string {
	var sb strings.Builder
	args := func() {
		for _, a := range t.Args {
			sb.WriteByte(' ')
			sb.WriteString(c.ref(a))
		}
	}
	switch t.Op {
	case "extract":
		sb.WriteString("((_ extract " + t.S + ")")
		args()
	case "zero_extend", "sign_extend":
		sb.WriteString("((_ " + t.Op + " " + t.S + ")")
		args()
	case "to_fp_s":
		sb.WriteString("((_ to_fp 11 53) RNE")
		args()
	case "to_fp_u":
		sb.WriteString("((_ to_fp_unsigned 11 53) RNE")
		args()
	case "fp_to_sbv":
		sb.WriteString("((_ fp.to_sbv " + t.S + ") RTZ")
		args()
	case "fp_to_ubv":
		sb.WriteString("((_ fp.to_ubv " + t.S + ") RTZ")
		args()
	case "fp.add", "fp.sub", "fp.mul", "fp.div":
		sb.WriteString("(" + t.Op + " RNE")
		args()
	case "uf":
		if len(t.Args) == 0 {
			return "|uf_" + t.S + "|"
		}
		sb.WriteString("(|uf_" + t.S + "|")
		args()
	default:
		sb.WriteString("(" + t.Op)
		args()
	}
	sb.WriteByte(')')
	return sb.String()
}

// Show renders a term fully expanded (for humans; exponential in the worst case, truncated).
func (c *TermCtx) Show(t *Term) string {
	var rec func(t *Term, d int) string
	rec = func(t *Term, d int) string {
		if t.Const {
			switch t.Sort.K {
			case SBV:
				return strconv.FormatInt(signExt(t.U, t.Sort.W), 10)
			case SStr:
				return strconv.Quote(t.S)
			case SFP:
				return strconv.FormatFloat(t.F, 'g', -1, 64)
			}
			return c.constSMT(t)
		}
		if t.Op == "var" {
			return t.S
		}
		if d > 6 {
			return "…"
		}
		s := "(" + t.Op
		if t.S != "" {
			s += "[" + t.S + "]"
		}
		for _, a := range t.Args {
			s += " " + rec(a, d+1)
		}
		return s + ")"
	}
	return rec(t, 0)
}

// parse helpers for model values

func parseBVValue(s string) (uint64, bool) {
	s = strings.TrimSpace(s)
	if strings.HasPrefix(s, "#x") {
		v, err := strconv.ParseUint(s[2:], 16, 64)
		return v, err == nil
	}
	if strings.HasPrefix(s, "#b") {
		v, err := strconv.ParseUint(s[2:], 2, 64)
		return v, err == nil
	}
	if strings.HasPrefix(s, "(_ bv") {
		f := strings.Fields(s[5:])
		if len(f) > 0 {
			b, ok := new(big.Int).SetString(f[0], 10)
			if ok {
				return b.Uint64(), true
			}
		}
	}
	return 0, false
}
