package main

// Stubs for the slice of net/http, net/url, context and strconv that the sidecar proxy and the
// scraper use. Header/Values are ordinary Go maps in the engine; keys are concrete strings.

import (
	"fmt"
	"go/types"
	"net/http"
	"net/url"
	"sort"
	"strconv"
	"strings"

	"golang.org/x/tools/go/ssa"
)

func structField(t types.Type, sv *StructV, name string) (Value, int) {
	st := t.Underlying().(*types.Struct)
	for i := 0; i < st.NumFields(); i++ {
		if st.Field(i).Name() == name {
			return sv.F[i], i
		}
	}
	panic("no field " + name + " in " + t.String())
}

func recvStructType(fn *ssa.Function) types.Type {
	t := fn.Signature.Recv().Type()
	if p, ok := t.(*types.Pointer); ok {
		t = p.Elem()
	}
	return t
}

// mapGetStrs returns the []string stored under a concrete key of a map[string][]string.
func (w *Worker) mapGetStrs(m MapV, key string) []Value {
	if m.O == nil {
		return nil
	}
	i := m.O.mapFind(w.tc.Str(key))
	if i < 0 {
		return nil
	}
	return sliceElemsOrNil(m.O.Entries[i].V)
}

func (w *Worker) strSlice(s *State, vals []Value) Value {
	arr := &ArrayV{E: append([]Value(nil), vals...)}
	return SliceV{O: s.newObj("array", arr), Len: len(vals), Cap: len(vals)}
}

func (w *Worker) mapSet(m MapV, key string, v Value) {
	if m.O == nil {
		panic(crash{"assignment to entry in nil map"})
	}
	k := w.tc.Str(key)
	if i := m.O.mapFind(k); i >= 0 {
		m.O.Entries[i].V = v
	} else {
		m.O.Entries = append(m.O.Entries, MapEntry{k, v})
	}
}

func (w *Worker) mapDel(m MapV, key string) {
	if m.O == nil {
		return
	}
	if i := m.O.mapFind(w.tc.Str(key)); i >= 0 {
		m.O.Entries = append(append([]MapEntry{}, m.O.Entries[:i]...), m.O.Entries[i+1:]...)
	}
}

func init() {
	headerGet := func(canon bool) stubFn {
		return func(w *Worker, s *State, f *Frame, fn *ssa.Function, a []Value, d int) (Value, bool) {
			key := w.concStr(a[1], "header/param key")
			if canon {
				key = http.CanonicalHeaderKey(key)
			}
			vs := w.mapGetStrs(a[0].(MapV), key)
			if len(vs) == 0 {
				return w.tc.Str(""), false
			}
			return vs[0], false
		}
	}
	headerSet := func(canon, add bool) stubFn {
		return func(w *Worker, s *State, f *Frame, fn *ssa.Function, a []Value, d int) (Value, bool) {
			key := w.concStr(a[1], "header/param key")
			if canon {
				key = http.CanonicalHeaderKey(key)
			}
			m := a[0].(MapV)
			var vals []Value
			if add {
				vals = append(vals, w.mapGetStrs(m, key)...)
			}
			vals = append(vals, a[2])
			w.mapSet(m, key, w.strSlice(s, vals))
			return nil, false
		}
	}
	headerDel := func(canon bool) stubFn {
		return func(w *Worker, s *State, f *Frame, fn *ssa.Function, a []Value, d int) (Value, bool) {
			key := w.concStr(a[1], "header/param key")
			if canon {
				key = http.CanonicalHeaderKey(key)
			}
			w.mapDel(a[0].(MapV), key)
			return nil, false
		}
	}
	stubs["(net/http.Header).Get"] = headerGet(true)
	stubs["(net/http.Header).Set"] = headerSet(true, false)
	stubs["(net/http.Header).Add"] = headerSet(true, true)
	stubs["(net/http.Header).Del"] = headerDel(true)
	stubs["(net/url.Values).Get"] = headerGet(false)
	stubs["(net/url.Values).Set"] = headerSet(false, false)
	stubs["(net/url.Values).Add"] = headerSet(false, true)
	stubs["(net/url.Values).Del"] = headerDel(false)
	stubs["(net/url.Values).Encode"] = func(w *Worker, s *State, f *Frame, fn *ssa.Function, a []Value, d int) (Value, bool) {
		m := a[0].(MapV)
		vals := url.Values{}
		if m.O != nil {
			for _, e := range m.O.Entries {
				k := w.concStr(e.K, "query key")
				for _, v := range sliceElemsOrNil(e.V) {
					vals.Add(k, w.concStr(v, "query value"))
				}
			}
		}
		return w.tc.Str(vals.Encode()), false
	}
	stubs["(*net/url.URL).Query"] = func(w *Worker, s *State, f *Frame, fn *ssa.Function, a []Value, d int) (Value, bool) {
		sv := s.load(a[0].(Ptr)).(*StructV)
		rq, _ := structField(recvStructType(fn), sv, "RawQuery")
		parsed, _ := url.ParseQuery(w.concStr(rq, "RawQuery"))
		o := s.newObj("map", nil)
		o.Entries = []MapEntry{}
		keys := make([]string, 0, len(parsed))
		for k := range parsed {
			keys = append(keys, k)
		}
		sort.Strings(keys)
		for _, k := range keys {
			var vs []Value
			for _, v := range parsed[k] {
				vs = append(vs, w.tc.Str(v))
			}
			o.Entries = append(o.Entries, MapEntry{w.tc.Str(k), w.strSlice(s, vs)})
		}
		return MapV{o}, false
	}
	stubs["(*net/url.URL).String"] = func(w *Worker, s *State, f *Frame, fn *ssa.Function, a []Value, d int) (Value, bool) {
		sv := s.load(a[0].(Ptr)).(*StructV)
		t := recvStructType(fn)
		u := url.URL{}
		get := func(name string) string {
			v, _ := structField(t, sv, name)
			return w.concStr(v, "URL."+name)
		}
		u.Scheme, u.Host, u.Path, u.RawQuery, u.Fragment, u.Opaque = get("Scheme"), get("Host"), get("Path"), get("RawQuery"), get("Fragment"), get("Opaque")
		return w.tc.Str(u.String()), false
	}
	stubs["net/url.Parse"] = func(w *Worker, s *State, f *Frame, fn *ssa.Function, a []Value, d int) (Value, bool) {
		raw := w.concStr(a[0], "URL to parse")
		u, err := url.Parse(raw)
		if err != nil {
			return TupleV{Ptr{}, w.newError(s, w.tc.Str(err.Error()))}, false
		}
		ut := fn.Signature.Results().At(0).Type().(*types.Pointer).Elem()
		sv := w.zero(ut).(*StructV)
		set := func(name, val string) {
			_, i := structField(ut, sv, name)
			sv.F[i] = w.tc.Str(val)
		}
		set("Scheme", u.Scheme)
		set("Host", u.Host)
		set("Path", u.Path)
		set("RawQuery", u.RawQuery)
		set("Fragment", u.Fragment)
		set("Opaque", u.Opaque)
		return TupleV{Ptr{O: s.newObj("cell", sv)}, IfaceV{}}, false
	}
	stubs["net/http.NewRequest"] = func(w *Worker, s *State, f *Frame, fn *ssa.Function, a []Value, d int) (Value, bool) {
		rt := fn.Signature.Results().At(0).Type().(*types.Pointer).Elem()
		req := w.zero(rt).(*StructV)
		_, hi := structField(rt, req, "Header")
		ho := s.newObj("map", nil)
		ho.Entries = []MapEntry{}
		req.F[hi] = MapV{ho}
		_, mi := structField(rt, req, "Method")
		req.F[mi] = a[0]
		o := s.newObj("cell", req)
		if s.ghost != nil {
			if v, ok := s.ghost["http.newrequest.fails"]; ok && w.branch(s, v.(*Term)) {
				return TupleV{Ptr{}, w.newError(s, w.tc.Str("parse url failed"))}, false
			}
		}
		if s.ghost == nil {
			s.ghost = map[string]Value{}
		}
		s.ghost["http.lasturl"] = a[1]
		return TupleV{Ptr{O: o}, IfaceV{}}, false
	}
	stubs["(*net/http.Request).WithContext"] = func(w *Worker, s *State, f *Frame, fn *ssa.Function, a []Value, d int) (Value, bool) {
		return a[0], false
	}
	stubs["context.Background"] = func(w *Worker, s *State, f *Frame, fn *ssa.Function, a []Value, d int) (Value, bool) {
		s.nOpaque++
		t := fn.Signature.Results().At(0).Type()
		return IfaceV{T: t, V: OpaqueV{T: t, ID: s.nOpaque, Tag: "context"}}, false
	}
	stubs["context.TODO"] = stubs["context.Background"]
	// the process environment is empty (SCRAPE_PROXY and friends unset)
	stubs["os.Getenv"] = func(w *Worker, s *State, f *Frame, fn *ssa.Function, a []Value, d int) (Value, bool) {
		return w.tc.Str(""), false
	}
	// reflect.DeepEqual on values without symbolic parts: structural comparison of the rendered
	// object graphs
	stubs["reflect.DeepEqual"] = func(w *Worker, s *State, f *Frame, fn *ssa.Function, a []Value, d int) (Value, bool) {
		r1 := &renderer{tc: w.tc, ids: map[*Obj]int{}}
		r1.val(a[0])
		r2 := &renderer{tc: w.tc, ids: map[*Obj]int{}}
		r2.val(a[1])
		x, y := r1.sb.String(), r2.sb.String()
		if (r1.sym || r2.sym) && x != y {
			// renderings with different symbolic parts cannot be compared textually
			panic(unsupported{"reflect.DeepEqual on values with symbolic parts"})
		}
		return w.tc.Bool(x == y), false
	}
	stubs["context.WithTimeout"] = func(w *Worker, s *State, f *Frame, fn *ssa.Function, a []Value, d int) (Value, bool) {
		return TupleV{a[0], &ClosureV{Native: "cancel"}}, false
	}
	stubs["context.WithCancel"] = func(w *Worker, s *State, f *Frame, fn *ssa.Function, a []Value, d int) (Value, bool) {
		// a cancellable context owns a "done" channel that cancel() closes (parent cancellation is
		// not propagated: the harnesses derive from Background)
		o := s.newObj("chan", nil)
		s.nOpaque++
		t := fn.Signature.Results().At(0).Type()
		ctx := IfaceV{T: t, V: OpaqueV{T: t, ID: s.nOpaque, Tag: "context", X: ChanV{o}}}
		return TupleV{ctx, &ClosureV{Native: "cancel", Bind: []Value{ChanV{o}}}}, false
	}
	opaqueHandlers["context.Done"] = func(w *Worker, s *State, op OpaqueV, args []Value) Value {
		if ch, ok := op.X.(ChanV); ok {
			return ch
		}
		return ChanV{}
	}
	opaqueHandlers["context.Err"] = func(w *Worker, s *State, op OpaqueV, args []Value) Value {
		if ch, ok := op.X.(ChanV); ok && ch.O != nil && ch.O.Closed {
			return w.newError(s, w.tc.Str("context canceled"))
		}
		return IfaceV{}
	}
	stubs["strconv.ParseUint"] = func(w *Worker, s *State, f *Frame, fn *ssa.Function, a []Value, d int) (Value, bool) {
		str := w.concStr(a[0], "ParseUint input")
		v, err := strconv.ParseUint(str, w.concInt(a[1], "base"), w.concInt(a[2], "bits"))
		if err != nil {
			return TupleV{w.tc.BV(64, v), w.newError(s, w.tc.Str(err.Error()))}, false
		}
		return TupleV{w.tc.BV(64, v), IfaceV{}}, false
	}
	stubs["strconv.FormatUint"] = func(w *Worker, s *State, f *Frame, fn *ssa.Function, a []Value, d int) (Value, bool) {
		t := w.term(a[0])
		if t.Const {
			return w.tc.Str(strconv.FormatUint(t.U, w.concInt(a[1], "base"))), false
		}
		return w.tc.UF("formatuint", sortStr, t), false
	}
	stubs["net/http.StatusText"] = func(w *Worker, s *State, f *Frame, fn *ssa.Function, a []Value, d int) (Value, bool) {
		t := w.term(a[0])
		if t.Const {
			return w.tc.Str(http.StatusText(int(t.U))), false
		}
		return w.tc.UF("statustext", sortStr, t), false
	}
	nativeClosures["cancel"] = func(w *Worker, s *State, args []Value) Value {
		if len(args) > 0 {
			if ch, ok := args[0].(ChanV); ok && ch.O != nil {
				ch.O.Closed = true
			}
		}
		return nil
	}
}

var nativeClosures = map[string]func(w *Worker, s *State, args []Value) Value{}

var _ = fmt.Sprint

func init() {
	sbKey := func(v Value) string {
		p := v.(Ptr)
		return fmt.Sprintf("sb:%d%v", p.O.ID, p.Path)
	}
	stubs["(*strings.Builder).WriteString"] = func(w *Worker, s *State, f *Frame, fn *ssa.Function, a []Value, d int) (Value, bool) {
		if s.ghost == nil {
			s.ghost = map[string]Value{}
		}
		k := sbKey(a[0])
		cur, ok := s.ghost[k].(*Term)
		if !ok {
			cur = w.tc.Str("")
		}
		add := w.term(a[1])
		var res *Term
		switch {
		case cur.Const && add.Const:
			res = w.tc.Str(cur.S + add.S)
		case cur.Const && cur.S == "":
			res = add
		case add.Const && add.S == "":
			res = cur
		default:
			res = w.tc.UF("concat", sortStr, cur, add)
		}
		s.ghost[k] = res
		n := w.tc.BV(64, 0)
		if add.Const {
			n = w.tc.BV(64, uint64(len(add.S)))
		}
		return TupleV{n, IfaceV{}}, false
	}
	stubs["(*strings.Builder).String"] = func(w *Worker, s *State, f *Frame, fn *ssa.Function, a []Value, d int) (Value, bool) {
		if cur, ok := s.ghost[sbKey(a[0])].(*Term); ok {
			return cur, false
		}
		return w.tc.Str(""), false
	}
}

func init() {
	str2 := func(f func(a, b string) Value) stubFn {
		return func(w *Worker, s *State, fr *Frame, fn *ssa.Function, a []Value, d int) (Value, bool) {
			return f(w.concStr(a[0], "string argument of "+fn.Name()), w.concStr(a[1], "string argument of "+fn.Name())), false
		}
	}
	var tcOf *Worker
	_ = tcOf
	stubs["strings.HasPrefix"] = func(w *Worker, s *State, fr *Frame, fn *ssa.Function, a []Value, d int) (Value, bool) {
		return w.tc.Bool(strings.HasPrefix(w.concStr(a[0], "strings.HasPrefix arg"), w.concStr(a[1], "strings.HasPrefix arg"))), false
	}
	stubs["strings.HasSuffix"] = func(w *Worker, s *State, fr *Frame, fn *ssa.Function, a []Value, d int) (Value, bool) {
		return w.tc.Bool(strings.HasSuffix(w.concStr(a[0], "strings.HasSuffix arg"), w.concStr(a[1], "strings.HasSuffix arg"))), false
	}
	stubs["strings.Contains"] = func(w *Worker, s *State, fr *Frame, fn *ssa.Function, a []Value, d int) (Value, bool) {
		return w.tc.Bool(strings.Contains(w.concStr(a[0], "strings.Contains arg"), w.concStr(a[1], "strings.Contains arg"))), false
	}
	stubs["strings.TrimPrefix"] = func(w *Worker, s *State, fr *Frame, fn *ssa.Function, a []Value, d int) (Value, bool) {
		return w.tc.Str(strings.TrimPrefix(w.concStr(a[0], "strings.TrimPrefix arg"), w.concStr(a[1], "strings.TrimPrefix arg"))), false
	}
	_ = str2
}
