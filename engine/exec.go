package main

import (
	"fmt"
	"os"
	"go/constant"
	"go/token"
	"go/types"
	"strings"
	"time"

	"golang.org/x/tools/go/ssa"
)

type Violation struct {
	Label    string                 `json:"label"`
	Harness  string                 `json:"harness"`
	Inputs   map[string]interface{} `json:"inputs"`
	Choices  []choiceRec            `json:"choices"`
	Finding  string                 `json:"finding,omitempty"` // non-empty: matches a known finding
	Detail   string                 `json:"detail,omitempty"`
	Trace    []string               `json:"trace,omitempty"`
	PathLen  int                    `json:"path_len"`
	CrossChk string                 `json:"cross_check,omitempty"`
}

type Stats struct {
	Paths, Dead, Crashed, Forks, Steps     int
	FeasQueries, PropQueries, XQueries     int
	TrivialAsserts, NontrivialAsserts      int
	Unknown                                int
	OneShot                                int
	XUnknown                               int
	Hist                                   [5]int
	HistT                                  [2]time.Duration
	Merged                                 int
	SolverTime                             time.Duration
	MaxUnwind                              map[string]int
	Funcs                                  map[string]bool
	Stubs                                  map[string]int
	Covers                                 map[string]int
	Inconclusive                           []string
	Violations                             []Violation
	Known                                  map[string]*Violation
	AssertLabels                           map[string]int
	AssertUnsat                            map[string]int
	Samples                                []map[string]interface{}
	CosimCases                             []CosimCase
	PropQueryKeys                          map[string]bool
	ForkSites                              map[string]int
}

func newStats() *Stats {
	return &Stats{MaxUnwind: map[string]int{}, Funcs: map[string]bool{}, Stubs: map[string]int{}, Covers: map[string]int{},
		Known: map[string]*Violation{}, AssertLabels: map[string]int{}, AssertUnsat: map[string]int{}, PropQueryKeys: map[string]bool{}}
}

type Config struct {
	Unwind       int
	MaxSteps     int
	TimeoutMs    int
	XCheck       bool     // re-ask property queries on cvc5
	XCheck2      bool     // and on z3-new
	Subst        map[string]string
	KnownIDs     map[string]bool // finding ids with status "known"
	MaxViol      int
	Cosim        int // number of paths to sample for co-simulation
	Fuse         bool
	Harness      string
	MergeAt      map[string]bool
	Deadline     time.Time
	WantObs      bool
	concrete     map[string]interface{}
	prefix       []int
	split        int
	Props        map[string]bool
	AssertPrefixes []string
	ExactSwr     bool
}

type Worker struct {
	prog   *Program
	tc     *TermCtx
	sol    *Solver
	xsol   *Solver
	xsol2  *Solver
	cfg    *Config
	stack  []*State
	st     *Stats
	seq    int
	waiting map[string][]*State // merge wavefronts
	export  func(prefix []int)
	cur     *State
	idle    func() bool
	traces  [][]string
	shareTick int
	oneShotVals map[int]string
	hardStreak  int
	nXUnsat     int
	hardTick    int
}

func NewWorker(p *Program, cfg *Config) *Worker {
	w := &Worker{prog: p, tc: NewTermCtx(), cfg: cfg, st: newStats()}
	w.sol = NewSolver(primarySolver(), w.tc, primaryLimitMs)
	return w
}

func (w *Worker) Close() {
	w.st.SolverTime = w.sol.Time
	for i, v := range w.sol.Hist {
		w.st.Hist[i] += v
	}
	w.st.HistT[0] += w.sol.HistT[0]
	w.st.HistT[1] += w.sol.HistT[1]
	w.sol.Close()
	if w.xsol != nil {
		w.st.SolverTime += w.xsol.Time
		w.xsol.Close()
	}
	if w.xsol2 != nil {
		w.st.SolverTime += w.xsol2.Time
		w.xsol2.Close()
	}
}

// check decides a feasibility query. Portfolio: the incremental primary solver with a short
// per-query limit; if it gives up, a one-shot cvc5 with integer-blasting (which decides the
// wrap-around-heavy time arithmetic quickly). "unknown" after both keeps the branch (sound).
func (w *Worker) check(pc *PC, extra ...*Term) string {
	w.st.FeasQueries++
	if w.hardStreak < 3 {
		r := w.sol.CheckPC(pc, extra...)
		if r != "unknown" {
			if w.hardStreak > 0 {
				w.hardStreak--
			}
			return r
		}
		w.hardStreak += 2
	} else {
		w.hardTick++
		if w.hardTick%16 == 0 {
			w.hardStreak = 0 // probe the primary again now and then
		}
	}
	w.st.OneShot++
	lits := append(pc.lits(), extra...)
	for _, l := range lits {
		if l.HasFP {
			r, _ := w.sol.OneShotKind(Z3, lits, nil, w.cfg.TimeoutMs)
			return r
		}
	}
	r, _ := w.sol.OneShotKind(CVC5Int, lits, nil, w.cfg.TimeoutMs)
	return r
}

// ---------- decisions and forking ----------

// decide returns which of n alternatives the current instruction takes on this state, forking
// the others. Must be called before the instruction has any side effect on s.
func (w *Worker) decide(s *State, n int, kind, name string) int {
	if len(s.forced) > 0 {
		d := s.forced[0]
		s.forced = s.forced[1:]
		s.made = append(s.made, d)
		s.trail = append(s.trail, int32(d))
		s.choices = append(s.choices, choiceRec{kind, name, d, n})
		return d
	}
	if n <= 0 {
		panic("decide with no alternatives")
	}
	for i := n - 1; i >= 1; i-- {
		c := s.clone()
		c.forced = append(append([]int(nil), s.made...), i)
		c.made = nil
		c.trail = c.trail[:len(c.trail)-len(s.made)]
		c.forks++
		w.stack = append(w.stack, c)
		w.st.Forks++
	}
	s.made = append(s.made, 0)
		s.trail = append(s.trail, 0)
	if n > 1 {
		s.forks++
	}
	s.choices = append(s.choices, choiceRec{kind, name, 0, n})
	return 0
}

// branch decides a symbolic condition, forking when both outcomes are feasible.
func (w *Worker) branch(s *State, cond *Term) bool {
	if cond.Const {
		return cond.U == 1
	}
	if len(s.forced) > 0 {
		d := s.forced[0]
		s.forced = s.forced[1:]
		s.made = append(s.made, d)
		s.trail = append(s.trail, int32(d))
		if d == 0 {
			s.pc = s.pc.push(cond)
			return true
		}
		s.pc = s.pc.push(w.tc.Not(cond))
		return false
	}
	ncond := w.tc.Not(cond)
	if s.pc.has(cond) {
		s.made = append(s.made, 0)
		s.trail = append(s.trail, 0)
		return true
	}
	if s.pc.has(ncond) {
		s.made = append(s.made, 1)
		s.trail = append(s.trail, 1)
		return false
	}
	rT := w.check(s.pc, cond)
	if rT == "error" {
		panic(unsupported{"solver error on feasibility query: " + lastSolverError})
	}
	feasT := rT != "unsat"
	feasF := true
	if feasT {
		rF := w.check(s.pc, ncond)
		if rF == "error" {
			panic(unsupported{"solver error on feasibility query: " + lastSolverError})
		}
		feasF = rF != "unsat"
		if rF == "unknown" {
			w.st.Unknown++
		}
	}
	if rT == "unknown" {
		w.st.Unknown++
	}
	switch {
	case feasT && feasF:
		if w.st.ForkSites != nil {
			w.st.ForkSites[w.where(s)]++
		}
		c := s.clone()
		c.forced = append(append([]int(nil), s.made...), 1)
		c.made = nil
		c.trail = c.trail[:len(c.trail)-len(s.made)]
		c.forks++
		w.stack = append(w.stack, c)
		w.st.Forks++
		s.forks++
		s.made = append(s.made, 0)
		s.trail = append(s.trail, 0)
		s.pc = s.pc.push(cond)
		return true
	case feasT:
		s.made = append(s.made, 0)
		s.trail = append(s.trail, 0)
		s.pc = s.pc.push(cond)
		return true
	default:
		s.made = append(s.made, 1)
		s.trail = append(s.trail, 1)
		s.pc = s.pc.push(ncond)
		return false
	}
}

// ---------- main loop ----------

func (w *Worker) Explore(init *State) {
	w.stack = append(w.stack, init)
	for {
		for len(w.stack) > 0 {
			if !w.cfg.Deadline.IsZero() && time.Now().After(w.cfg.Deadline) {
				w.st.Inconclusive = append(w.st.Inconclusive, fmt.Sprintf("deadline reached with %d states pending", len(w.stack)))
				w.stack = nil
				return
			}
			s := w.stack[len(w.stack)-1]
			w.stack = w.stack[:len(w.stack)-1]
			w.runState(s)
			w.shareWork()
		}
		if !w.releaseMerged() {
			break
		}
	}
}

func (w *Worker) runState(s *State) {
	w.cur = s
	for s.status == "running" {
		w.safeStep(s)
	}
	switch s.status {
	case "done":
		w.st.Paths++
		w.finishPath(s)
	case "crashed":
		w.st.Paths++
		w.st.Crashed++
		w.finishPath(s)
	case "dead":
		w.st.Dead++
	case "parked":
	case "inconclusive":
		w.st.Paths++
		if len(w.st.Inconclusive) < 50 {
			w.st.Inconclusive = append(w.st.Inconclusive, s.why)
		}
	}
	w.st.Steps += s.steps
	s.steps = 0
}

func (w *Worker) safeStep(s *State) {
	defer func() {
		if r := recover(); r != nil {
			switch x := r.(type) {
			case crash:
				w.handleCrash(s, x.why)
			case unsupported:
				s.status = "inconclusive"
				s.why = "UNSUPPORTED " + x.what + " at " + w.where(s)
			case pathDead:
				s.status = "dead"
			default:
				panic(r)
			}
		}
	}()
	for i := 0; i < 256 && s.status == "running"; i++ {
		w.step(s)
	}
}

func (w *Worker) where(s *State) string {
	if len(s.frames) == 0 {
		return "?"
	}
	f := s.top()
	pos := token.NoPos
	if f.ip < len(f.block.Instrs) {
		pos = f.block.Instrs[f.ip].Pos()
	}
	var chain []string
	for i := len(s.frames) - 1; i >= 0 && len(chain) < 6; i-- {
		chain = append(chain, s.frames[i].fn.Name())
	}
	return fmt.Sprintf("%s (%s) in %s", w.prog.fset.Position(pos), f.fn.String(), strings.Join(chain, "<"))
}

func (w *Worker) handleCrash(s *State, why string) {
	at := w.where(s)
	for len(s.frames) > 0 {
		f := s.top()
		s.frames = s.frames[:len(s.frames)-1]
		if f.catch {
			if len(s.frames) > 0 {
				if f.callerReg >= 0 {
					s.top().env[f.callerReg] = w.tc.True
				}
				s.top().ip++ // continue after the Crashed(...) call
			}
			s.covers["crash:"+why] = true
			s.why = why + " at " + at
			s.forced, s.made = nil, nil
			return
		}
	}
	s.status = "crashed"
	s.why = why + " at " + at
}

func (w *Worker) step(s *State) {
	f := s.top()
	if f.ip >= len(f.block.Instrs) {
		panic(fmt.Sprintf("fell off block in %s", f.fn))
	}
	in := f.block.Instrs[f.ip]
	s.steps++
	if w.cfg.MaxSteps > 0 && s.steps > w.cfg.MaxSteps*1000 {
		panic(unsupported{"step budget exceeded"})
	}
	s.made = s.made[:0]
	advance := w.exec(s, f, in)
	if advance {
		f.ip++
		if s.threads != nil {
			s.opDone()
		}
	}
}

func (w *Worker) jump(s *State, f *Frame, to *ssa.BasicBlock) {
	if to.Dominates(f.block) { // back edge
		if f.loops == nil {
			f.loops = map[int]int{}
		}
		f.loops[to.Index]++
		key := fmt.Sprintf("%s#%d", f.fn.String(), to.Index)
		if f.loops[to.Index] > w.st.MaxUnwind[key] {
			w.st.MaxUnwind[key] = f.loops[to.Index]
		}
		if f.loops[to.Index] > w.cfg.Unwind {
			panic(unsupported{fmt.Sprintf("UNWINDING bound %d exceeded for loop %s", w.cfg.Unwind, key)})
		}
	} else if f.loops != nil && f.loops[to.Index] != 0 {
		// the loop headed by `to` is entered afresh (not through its back edge)
		delete(f.loops, to.Index)
	}
	f.prev = f.block
	f.block = to
	f.ip = 0
}

func (w *Worker) reg(f *Frame, v ssa.Value) int {
	i, ok := f.info.idx[v]
	if !ok {
		panic(fmt.Sprintf("no register for %s in %s", v.Name(), f.fn))
	}
	return i
}

func (w *Worker) set(f *Frame, v ssa.Value, x Value) { f.env[w.reg(f, v)] = x }

func (w *Worker) constVal(c *ssa.Const) Value {
	if c.Value == nil {
		return w.zero(c.Type())
	}
	t := c.Type().Underlying()
	b, ok := t.(*types.Basic)
	if !ok {
		if _, isI := t.(*types.Interface); isI {
			panic(unsupported{"non-nil constant of interface type"})
		}
		if tp, isTP := c.Type().(*types.TypeParam); isTP {
			panic(unsupported{"constant of type parameter " + tp.String()})
		}
		panic(unsupported{"constant of type " + c.Type().String()})
	}
	srt, ok := basicSort(b)
	if !ok {
		if b.Kind() == types.Float32 {
			f, _ := constant.Float64Val(constant.ToFloat(c.Value))
			return w.tc.FP(f)
		}
		panic(unsupported{"constant of basic type " + b.String()})
	}
	switch srt.K {
	case SBool:
		return w.tc.Bool(constant.BoolVal(c.Value))
	case SBV:
		v := constant.ToInt(c.Value)
		if i, exact := constant.Int64Val(v); exact {
			return w.tc.BV(srt.W, uint64(i))
		}
		u, _ := constant.Uint64Val(v)
		return w.tc.BV(srt.W, u)
	case SFP:
		f, _ := constant.Float64Val(constant.ToFloat(c.Value))
		return w.tc.FP(f)
	case SStr:
		return w.tc.Str(constant.StringVal(c.Value))
	}
	panic("unreachable")
}

func (w *Worker) global(s *State, g *ssa.Global) *Obj {
	if o, ok := s.globals[g]; ok {
		return o
	}
	et := g.Type().(*types.Pointer).Elem()
	o := s.newObj("cell", w.zero(et))
	// sentinel errors of packages whose initialisers are not executed (io.EOF, http.ErrAbortHandler …)
	// are distinct opaque non-nil errors
	if g.Pkg != nil && len(g.Pkg.Func("init").Blocks) == 0 {
		if types.Identical(et, types.Universe.Lookup("error").Type()) {
			o.Val = w.newError(s, w.tc.Str(g.Pkg.Pkg.Path()+"."+g.Name()))
		}
		o.Shared = true
	}
	s.globals[g] = o
	return o
}

func (w *Worker) eval(s *State, f *Frame, v ssa.Value) Value {
	switch x := v.(type) {
	case *ssa.Const:
		return w.constVal(x)
	case *ssa.Global:
		return Ptr{O: w.global(s, x)}
	case *ssa.Function:
		return &ClosureV{Fn: x}
	case *ssa.Builtin:
		return x
	}
	return f.env[w.reg(f, v)]
}

func (w *Worker) term(v Value) *Term {
	t, ok := v.(*Term)
	if !ok {
		panic(fmt.Sprintf("expected scalar, got %T", v))
	}
	return t
}

// concrete int from a value (index, length); symbolic -> unsupported
func (w *Worker) concInt(v Value, what string) int {
	t := w.term(v)
	if !t.Const {
		panic(unsupported{"symbolic " + what})
	}
	return int(signExt(t.U, t.Sort.W))
}

func (w *Worker) exec(s *State, f *Frame, in ssa.Instruction) bool {
	switch x := in.(type) {
	case *ssa.DebugRef:
		return true
	case *ssa.Alloc:
		o := s.newObj("cell", w.zero(x.Type().(*types.Pointer).Elem()))
		w.set(f, x, Ptr{O: o})
	case *ssa.BinOp:
		w.set(f, x, w.binop(s, x.Op, x.X.Type(), w.eval(s, f, x.X), w.eval(s, f, x.Y), x.Y.Type()))
	case *ssa.UnOp:
		if x.Op == token.ARROW {
			return w.recvStmt(s, f, x)
		}
		w.set(f, x, w.unop(s, x, w.eval(s, f, x.X)))
	case *ssa.Phi:
		// all phis of a block are evaluated "simultaneously": compute all, then assign
		var phis []*ssa.Phi
		for _, i2 := range f.block.Instrs[f.ip:] {
			p, ok := i2.(*ssa.Phi)
			if !ok {
				break
			}
			phis = append(phis, p)
		}
		pi := -1
		for i, p := range f.block.Preds {
			if p == f.prev {
				pi = i
				break
			}
		}
		if pi < 0 {
			panic("phi: predecessor not found")
		}
		vals := make([]Value, len(phis))
		for i, p := range phis {
			vals[i] = w.eval(s, f, p.Edges[pi])
		}
		for i, p := range phis {
			w.set(f, p, vals[i])
		}
		f.ip += len(phis)
		return false
	case *ssa.If:
		c := w.term(w.eval(s, f, x.Cond))
		if !c.Const && w.cfg.Fuse {
			if w.tryFuse(s, f, x, c) {
				return false
			}
		}
		if w.branch(s, c) {
			w.jump(s, f, f.block.Succs[0])
		} else {
			w.jump(s, f, f.block.Succs[1])
		}
		return false
	case *ssa.Jump:
		w.jump(s, f, f.block.Succs[0])
		return false
	case *ssa.Return:
		var res Value
		switch len(x.Results) {
		case 0:
		case 1:
			res = w.eval(s, f, x.Results[0])
		default:
			t := make(TupleV, len(x.Results))
			for i, r := range x.Results {
				t[i] = w.eval(s, f, r)
			}
			res = t
		}
		w.doReturn(s, f, res)
		return false
	case *ssa.Call:
		return w.call(s, f, x, &x.Call, w.reg(f, x))
	case *ssa.Defer:
		d := deferRec{}
		if x.Call.IsInvoke() {
			d.recv = w.eval(s, f, x.Call.Value)
			d.method = x.Call.Method
		} else {
			d.fn = w.eval(s, f, x.Call.Value)
		}
		for _, a := range x.Call.Args {
			d.args = append(d.args, w.eval(s, f, a))
		}
		f.defers = append(f.defers, d)
	case *ssa.RunDefers:
		if len(f.defers) == 0 {
			return true
		}
		d := f.defers[len(f.defers)-1]
		f.defers = f.defers[:len(f.defers)-1]
		// stay on this instruction until all defers have run
		if d.method != nil {
			w.invoke(s, f, d.recv, d.method, d.args, -1, in)
		} else {
			w.callValue(s, f, d.fn, d.args, -1, in)
		}
		return false
	case *ssa.Panic:
		v := w.eval(s, f, x.X)
		r := &renderer{tc: w.tc, ids: map[*Obj]int{}}
		r.val(v)
		panic(crash{"panic: " + r.sb.String()})
	case *ssa.Go:
		return w.goStmt(s, f, x)
	case *ssa.Store:
		p := w.eval(s, f, x.Addr).(Ptr)
		s.store(p, w.eval(s, f, x.Val))
	case *ssa.FieldAddr:
		if op, isOp := w.eval(s, f, x.X).(OpaqueV); isOp {
			w.set(f, x, op) // a field of an opaque external object is opaque
			return true
		}
		p := w.eval(s, f, x.X).(Ptr)
		if p.O == nil {
			panic(crash{"nil pointer dereference (field " + fieldName(x.X.Type(), x.Field) + ")"})
		}
		w.set(f, x, Ptr{p.O, extendPath(p.Path, x.Field)})
	case *ssa.Field:
		sv := w.eval(s, f, x.X).(*StructV)
		w.set(f, x, copyAgg(sv.F[x.Field]))
	case *ssa.IndexAddr:
		base := w.eval(s, f, x.X)
		idx := w.term(w.eval(s, f, x.Index))
		var o *Obj
		var off, n int
		var path []int
		switch b := base.(type) {
		case SliceV:
			o, off, n = b.O, b.Off, b.Len
		case Ptr:
			if b.O == nil {
				panic(crash{"nil pointer dereference (array)"})
			}
			arr := navigate(b.O.Val, b.Path).(*ArrayV)
			o, off, n, path = b.O, 0, len(arr.E), b.Path
		default:
			panic(fmt.Sprintf("IndexAddr on %T", base))
		}
		i := w.pickIndex(s, idx, n)
		w.set(f, x, Ptr{o, extendPath(path, off+i)})
	case *ssa.Index:
		base := w.eval(s, f, x.X)
		idx := w.term(w.eval(s, f, x.Index))
		switch b := base.(type) {
		case *ArrayV:
			i := w.pickIndex(s, idx, len(b.E))
			w.set(f, x, copyAgg(b.E[i]))
		case *Term:
			if !b.Const {
				panic(unsupported{"index into symbolic string"})
			}
			i := w.pickIndex(s, idx, len(b.S))
			w.set(f, x, w.tc.BV(8, uint64(b.S[i])))
		default:
			panic(fmt.Sprintf("Index on %T", base))
		}
	case *ssa.Lookup:
		w.lookup(s, f, x)
	case *ssa.Slice:
		w.slice(s, f, x)
	case *ssa.MakeSlice:
		n := w.concInt(w.eval(s, f, x.Len), "slice length")
		c := w.concInt(w.eval(s, f, x.Cap), "slice capacity")
		if n < 0 || c < n {
			panic(crash{"makeslice: len out of range"})
		}
		el := x.Type().Underlying().(*types.Slice).Elem()
		arr := &ArrayV{make([]Value, c)}
		for i := range arr.E {
			arr.E[i] = w.zero(el)
		}
		w.set(f, x, SliceV{s.newObj("array", arr), 0, n, c})
	case *ssa.MakeMap:
		o := s.newObj("map", nil)
		o.Entries = []MapEntry{}
		o.Type = x.Type()
		w.set(f, x, MapV{o})
	case *ssa.MakeChan:
		o := s.newObj("chan", nil)
		o.Cap = w.concInt(w.eval(s, f, x.Size), "channel size")
		w.set(f, x, ChanV{o})
	case *ssa.MapUpdate:
		m := w.eval(s, f, x.Map).(MapV)
		if m.O == nil {
			panic(crash{"assignment to entry in nil map"})
		}
		k := w.eval(s, f, x.Key)
		v := copyAgg(w.eval(s, f, x.Value))
		if i := w.mapIndex(s, m.O, k); i >= 0 {
			m.O.Entries[i].V = v
		} else {
			m.O.Entries = append(m.O.Entries, MapEntry{k, v})
		}
	case *ssa.Range:
		switch m := w.eval(s, f, x.X).(type) {
		case MapV:
			it := s.newObj("iter", nil)
			it.IterMap = m.O
			if m.O != nil {
				for _, e := range m.O.Entries {
					it.IterSnap = append(it.IterSnap, e.K)
				}
			}
			w.set(f, x, IterV{it})
		default:
			panic(unsupported{"range over string"})
		}
	case *ssa.Next:
		w.next(s, f, x)
	case *ssa.MakeClosure:
		c := &ClosureV{Fn: x.Fn.(*ssa.Function)}
		for _, b := range x.Bindings {
			c.Bind = append(c.Bind, w.eval(s, f, b))
		}
		w.set(f, x, c)
	case *ssa.MakeInterface:
		w.set(f, x, IfaceV{T: x.X.Type(), V: w.eval(s, f, x.X)})
	case *ssa.ChangeInterface:
		w.set(f, x, w.eval(s, f, x.X))
	case *ssa.ChangeType:
		w.set(f, x, w.eval(s, f, x.X))
	case *ssa.Convert:
		w.set(f, x, w.convert(s, w.eval(s, f, x.X), x.X.Type(), x.Type()))
	case *ssa.TypeAssert:
		w.typeAssert(s, f, x)
	case *ssa.Extract:
		w.set(f, x, w.eval(s, f, x.Tuple).(TupleV)[x.Index])
	case *ssa.Send:
		return w.sendStmt(s, f, x)
	case *ssa.Select:
		return w.selectStmt(s, f, x)
	default:
		panic(unsupported{fmt.Sprintf("instruction %T", in)})
	}
	return true
}

func fieldName(t types.Type, i int) string {
	if p, ok := t.Underlying().(*types.Pointer); ok {
		t = p.Elem()
	}
	if st, ok := t.Underlying().(*types.Struct); ok && i < st.NumFields() {
		return st.Field(i).Name()
	}
	return fmt.Sprint(i)
}

// pickIndex resolves an index against a concrete length: concrete -> bounds check; symbolic ->
// fork over the feasible values (and the out-of-range crash).
func (w *Worker) pickIndex(s *State, idx *Term, n int) int {
	if idx.Const {
		i := int(signExt(idx.U, idx.Sort.W))
		if i < 0 || i >= n {
			panic(crash{fmt.Sprintf("index out of range [%d] with length %d", i, n)})
		}
		return i
	}
	// alternatives 0..n-1 are in-range values, n is out of range
	if len(s.forced) > 0 {
		d := s.forced[0]
		s.forced = s.forced[1:]
		s.made = append(s.made, d)
		s.trail = append(s.trail, int32(d))
		return w.applyIndex(s, idx, n, d)
	}
	var feas []int
	for i := 0; i <= n; i++ {
		var c *Term
		if i < n {
			c = w.tc.Eq(idx, w.tc.BV(idx.Sort.W, uint64(i)))
		} else {
			c = w.tc.Not(w.tc.Cmp("bvult", idx, w.tc.BV(idx.Sort.W, uint64(n))))
		}
		if w.check(s.pc, c) != "unsat" {
			feas = append(feas, i)
		}
	}
	if len(feas) == 0 {
		panic(pathDead{})
	}
	for k := len(feas) - 1; k >= 1; k-- {
		c := s.clone()
		c.forced = append(append([]int(nil), s.made...), feas[k])
		c.made = nil
		c.trail = c.trail[:len(c.trail)-len(s.made)]
		c.forks++
		w.stack = append(w.stack, c)
		w.st.Forks++
	}
	s.made = append(s.made, feas[0])
	s.trail = append(s.trail, int32(feas[0]))
	return w.applyIndex(s, idx, n, feas[0])
}

func (w *Worker) applyIndex(s *State, idx *Term, n, d int) int {
	if d < n {
		s.pc = s.pc.push(w.tc.Eq(idx, w.tc.BV(idx.Sort.W, uint64(d))))
		return d
	}
	s.pc = s.pc.push(w.tc.Not(w.tc.Cmp("bvult", idx, w.tc.BV(idx.Sort.W, uint64(n)))))
	panic(crash{"index out of range (symbolic index)"})
}

func (w *Worker) doReturn(s *State, f *Frame, res Value) {
	if len(f.defers) > 0 && !f.runningDefers {
		// cannot happen: go/ssa emits RunDefers before Return
	}
	if len(s.frames) == 1 && s.threads != nil && s.cur != 0 {
		w.threadExit(s)
		return
	}
	s.frames = s.frames[:len(s.frames)-1]
	if len(s.frames) == 0 {
		s.status = "done"
		return
	}
	caller := s.top()
	if f.catch {
		res = w.tc.False
	}
	if f.discard {
		// result dropped; the caller instruction (RunDefers, monitor) handles its own ip
		w.afterReturn(s, caller, f)
		return
	}
	if f.callerReg >= 0 {
		caller.env[f.callerReg] = res
	}
	w.afterReturn(s, caller, f)
}

// afterReturn advances the caller past the call instruction, except for RunDefers, which
// re-executes until its defer list is empty.
func (w *Worker) afterReturn(s *State, caller *Frame, callee *Frame) {
	if callee.isInit {
		return
	}
	if caller.ip < len(caller.block.Instrs) {
		if _, ok := caller.block.Instrs[caller.ip].(*ssa.RunDefers); ok {
			return
		}
	}
	if w.cfg.MergeAt != nil && w.cfg.MergeAt[callee.fn.String()] {
		caller.ip++
		w.park(s, callee.fn.String())
		return
	}
	caller.ip++
}

func (w *Worker) lookup(s *State, f *Frame, x *ssa.Lookup) {
	base := w.eval(s, f, x.X)
	switch b := base.(type) {
	case MapV:
		k := w.eval(s, f, x.Index)
		var v Value
		found := false
		if b.O != nil {
			if i := w.mapIndex(s, b.O, k); i >= 0 {
				v, found = copyAgg(b.O.Entries[i].V), true
			}
		}
		if !found {
			v = w.zero(x.X.Type().Underlying().(*types.Map).Elem())
		}
		if x.CommaOk {
			w.set(f, x, TupleV{v, w.tc.Bool(found)})
		} else {
			w.set(f, x, v)
		}
	case *Term:
		if !b.Const {
			panic(unsupported{"index into symbolic string"})
		}
		i := w.pickIndex(s, w.term(w.eval(s, f, x.Index)), len(b.S))
		w.set(f, x, w.tc.BV(8, uint64(b.S[i])))
	default:
		panic(fmt.Sprintf("Lookup on %T", base))
	}
}

func (w *Worker) slice(s *State, f *Frame, x *ssa.Slice) {
	base := w.eval(s, f, x.X)
	get := func(v ssa.Value, def int) int {
		if v == nil {
			return def
		}
		return w.concInt(w.eval(s, f, v), "slice bound")
	}
	switch b := base.(type) {
	case SliceV:
		lo := get(x.Low, 0)
		hi := get(x.High, b.Len)
		mx := get(x.Max, b.Cap)
		if lo < 0 || hi < lo || mx < hi || mx > b.Cap {
			panic(crash{fmt.Sprintf("slice bounds out of range [%d:%d:%d] with capacity %d", lo, hi, mx, b.Cap)})
		}
		if b.O == nil {
			w.set(f, x, SliceV{})
			return
		}
		w.set(f, x, SliceV{b.O, b.Off + lo, hi - lo, mx - lo})
	case *Term:
		if !b.Const {
			panic(unsupported{"slice of symbolic string"})
		}
		lo := get(x.Low, 0)
		hi := get(x.High, len(b.S))
		if lo < 0 || hi < lo || hi > len(b.S) {
			panic(crash{"string slice bounds out of range"})
		}
		w.set(f, x, w.tc.Str(b.S[lo:hi]))
	case Ptr:
		if b.O == nil {
			panic(crash{"nil pointer dereference (slice of array)"})
		}
		arr := navigate(b.O.Val, b.Path).(*ArrayV)
		if len(b.Path) != 0 {
			panic(unsupported{"slice of an array nested in another object"})
		}
		lo := get(x.Low, 0)
		hi := get(x.High, len(arr.E))
		mx := get(x.Max, len(arr.E))
		if lo < 0 || hi < lo || mx < hi || mx > len(arr.E) {
			panic(crash{"slice bounds out of range"})
		}
		// the cell holds the *ArrayV directly, which is what a slice's backing object looks like
		w.set(f, x, SliceV{b.O, lo, hi - lo, mx - lo})
	default:
		panic(fmt.Sprintf("Slice on %T", base))
	}
}

func (w *Worker) next(s *State, f *Frame, x *ssa.Next) {
	if x.IsString {
		panic(unsupported{"range over string"})
	}
	it := w.eval(s, f, x.Iter).(IterV).O
	mt := x.Iter.(*ssa.Range).X.Type().Underlying().(*types.Map)
	var must, may []Value // keys that must still be produced / may be produced
	if it.IterMap != nil {
		for _, e := range it.IterMap.Entries {
			seen := false
			for _, k := range it.IterSeen {
				if eq, _ := keyEq(k, e.K); eq {
					seen = true
					break
				}
			}
			if seen {
				continue
			}
			inSnap := false
			for _, k := range it.IterSnap {
				if eq, _ := keyEq(k, e.K); eq {
					inSnap = true
					break
				}
			}
			if inSnap {
				must = append(must, e.K)
			} else {
				may = append(may, e.K)
			}
		}
	}
	cands := append(append([]Value{}, must...), may...)
	n := len(cands)
	if len(must) == 0 {
		n++ // "done" is an alternative
	}
	d := 0
	if n > 1 {
		d = w.decide(s, n, "maporder", "")
		// after decide, s is still this state (clones re-execute); but objects are the same here
	}
	if d >= len(cands) {
		w.set(f, x, TupleV{w.tc.False, w.zero(mt.Key()), w.zero(mt.Elem())})
		return
	}
	k := cands[d]
	it.IterSeen = append(it.IterSeen, k)
	i := it.IterMap.mapFind(k)
	w.set(f, x, TupleV{w.tc.True, k, copyAgg(it.IterMap.Entries[i].V)})
}

func (w *Worker) typeAssert(s *State, f *Frame, x *ssa.TypeAssert) {
	v := w.eval(s, f, x.X).(IfaceV)
	ok := false
	var res Value
	if v.T != nil {
		if it, isI := x.AssertedType.Underlying().(*types.Interface); isI {
			ok = types.Implements(v.T, it)
			if !ok {
				// pointer receiver method sets are included by Implements on the dynamic type itself
				ok = it.NumMethods() == 0
			}
			res = v
		} else {
			ok = types.Identical(v.T, x.AssertedType)
			res = v.V
		}
	}
	if x.CommaOk {
		if !ok {
			res = w.zero(x.AssertedType)
		}
		w.set(f, x, TupleV{res, w.tc.Bool(ok)})
		return
	}
	if !ok {
		panic(crash{"interface conversion failed: " + x.AssertedType.String()})
	}
	w.set(f, x, res)
}

// shareWork hands the older half of the local work stack to idle workers. A state is shipped as
// its decision trail; the receiving worker re-executes from the initial state with those
// decisions forced (no solver queries on the replayed prefix).
func (w *Worker) shareWork() {
	if w.export == nil || w.idle == nil || len(w.stack) < 2 {
		return
	}
	w.shareTick++
	if w.shareTick%4 != 0 || !w.idle() {
		return
	}
	n := len(w.stack) / 2
	// states that went through a merge point are not representable by a decision trail
	for i := 0; i < n; i++ {
		if w.stack[i].merged {
			n = i
			break
		}
	}
	if n == 0 {
		return
	}
	for _, c := range w.stack[:n] {
		full := make([]int, 0, len(c.trail)+len(c.forced))
		for _, d := range c.trail {
			full = append(full, int(d))
		}
		full = append(full, c.forced...)
		w.export(full)
	}
	w.stack = append([]*State(nil), w.stack[n:]...)
}

func primarySolver() SolverKind {
	switch os.Getenv("SYMGO_SOLVER") {
	case "cvc5":
		return CVC5
	case "z3new":
		return Z3New
	}
	return Z3
}

// primaryLimitMs is the per-query limit of the incremental primary solver; harder queries go to
// the one-shot fallbacks with the configured (long) limit.
const primaryLimitMs = 1500

// mapIndex finds key k in a map. Keys that cannot be compared concretely (symbolic scalars) are
// resolved by forking on equality with each candidate entry (infeasible alternatives pruned).
func (w *Worker) mapIndex(s *State, o *Obj, k Value) int {
	undecided := []int{}
	for i, e := range o.Entries {
		eq, ok := keyEq(e.K, k)
		if ok && eq {
			return i
		}
		if !ok {
			undecided = append(undecided, i)
		}
	}
	if len(undecided) == 0 {
		return -1
	}
	kt, isT := k.(*Term)
	if !isT {
		panic(unsupported{"map look-up with a symbolic composite key"})
	}
	var guards []*Term
	var none []*Term
	for _, i := range undecided {
		g := w.tc.Eq(o.Entries[i].K.(*Term), kt)
		guards = append(guards, g)
		none = append(none, w.tc.Not(g))
	}
	guards = append(guards, w.tc.And(none...))
	d := w.decideAmong(s, guards, "mapkey", "")
	if d == len(undecided) {
		return -1
	}
	return undecided[d]
}
