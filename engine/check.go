package main

// Property-level driver: `symgo check <id> quick|thorough`.

import (
	"bytes"
	"encoding/json"
	"fmt"
	"os"
	"os/exec"
	"path/filepath"
	"sort"
	"strconv"
	"strings"
	"time"
)

type HarnessRun struct {
	Entry   string // short name, resolved inside PropSpec.Pkg
	Args    []int
	Unwind  int
	MergeAt []string
	Subst   map[string]string
	Timeout time.Duration
	Cosim   int
	Pkg     string // override package path
	NoFuse  bool
}

type PropSpec struct {
	ID         string
	Pkg        string   // package path of the harness entries
	LoadPkgs   []string // additional packages to load
	NativeDir  string   // directory under /repo/pkg for the native test
	Quick      []HarnessRun
	Thorough   []HarnessRun
	Required   []string // cover labels that must be reached (vacuity guard)
	Prefixes   []string // assertion label prefixes belonging to this property
	Bounds     string
	Outside    []string
	Assume     []string
	Functions  []string // documentation: real functions this check is meant to encode
}

type KnownFinding struct {
	Property string `json:"property"`
	ID       string `json:"id"`
	Status   string `json:"status"` // "known" | "fixed"
	What     string `json:"what"`
	Where    string `json:"where,omitempty"`
	Commit   string `json:"commit,omitempty"`
}

func loadKnown(path string) ([]KnownFinding, error) {
	b, err := os.ReadFile(path)
	if err != nil {
		if os.IsNotExist(err) {
			return nil, nil
		}
		return nil, err
	}
	var k []KnownFinding
	if err := json.Unmarshal(b, &k); err != nil {
		return nil, err
	}
	return k, nil
}

type nativeCase struct {
	Dir    string                 `json:"-"`
	ID     string                 `json:"id"`
	Entry  string                 `json:"entry"`
	Args   []int                  `json:"args"`
	Inputs map[string]interface{} `json:"inputs"`
	Known  []string               `json:"known"`
	Props  []string               `json:"props"`
	Want   string                 `json:"want,omitempty"`
	Expect [][]string             `json:"expect,omitempty"`
	Reps   int                    `json:"reps"`
}

type nativeResult struct {
	ID         string   `json:"id"`
	Reproduced bool     `json:"reproduced"`
	Runs       int      `json:"runs"`
	Failed     []string `json:"failed"`
	Mismatch   []string `json:"mismatch"`
	Distinct   int      `json:"distinct_traces"`
	Skipped    int      `json:"assume_failed"`
	Panic      string   `json:"panic"`
	LastTrace  []string `json:"last_trace,omitempty"`
}

const verifDir = "/verif"

func matchesPrefix(label string, prefixes []string) bool {
	label = strings.TrimPrefix(label, "sym:")
	if label == "no-uncaught-crash" {
		return true
	}
	for _, p := range prefixes {
		if strings.HasPrefix(label, p) {
			return true
		}
	}
	return false
}

func cmdCheck(argv []string) int {
	if len(argv) < 2 {
		fmt.Fprintln(os.Stderr, "usage: symgo check <id> quick|thorough [--replay file]")
		return 2
	}
	id, tier := argv[0], argv[1]
	if tier == "--replay" && len(argv) >= 3 {
		return cmdReplay(id, argv[2])
	}
	if len(argv) >= 4 && argv[2] == "--replay" {
		return cmdReplay(id, argv[3])
	}
	spec, ok := propTable()[id]
	if !ok {
		fmt.Fprintf(os.Stderr, "no check for property %s\n", id)
		return 2
	}
	repo := os.Getenv("VERIF_REPO")
	if repo == "" {
		repo = "/repo"
	}
	seed, _ := strconv.Atoi(os.Getenv("VERIF_SEED"))
	t0 := time.Now()
	runs := spec.Quick
	if tier == "thorough" {
		runs = spec.Thorough
	}
	known, err := loadKnown(filepath.Join(verifDir, "known_findings.json"))
	if err != nil {
		fmt.Fprintln(os.Stderr, "known_findings.json:", err)
		return 2
	}
	knownIDs := map[string]bool{}
	knownByID := map[string]KnownFinding{}
	for _, k := range known {
		knownByID[k.ID] = k
		if k.Status == "known" {
			knownIDs[k.ID] = true
		}
	}
	pats := append([]string{spec.Pkg}, spec.LoadPkgs...)
	prog, err := loadProgram(repo, filepath.Join(verifDir, "harness"), pats)
	if err != nil {
		fmt.Println(err)
		fmt.Println("INCONCLUSIVE property=" + id + " reason=harness does not build against the current tree")
		writeEvidence(spec, tier, seed, nil, nil, 0, 0, time.Since(t0), []string{err.Error()})
		return 2
	}
	loadT := time.Since(t0)
	workers := 16
	if v, err := strconv.Atoi(os.Getenv("VERIF_WORKERS")); err == nil && v > 0 {
		workers = v
	}
	total := newStats()
	var results []*RunResult
	var inconclusive []string
	for _, hr := range runs {
		pkg := spec.Pkg
		if hr.Pkg != "" {
			pkg = hr.Pkg
		}
		rs := RunSpec{Entry: pkg + "." + hr.Entry, Args: hr.Args, Unwind: hr.Unwind, Workers: workers, Fuse: !hr.NoFuse, XCheck: true,
			XCheck2: tier == "thorough", MergeAt: hr.MergeAt, Subst: hr.Subst, Known: knownIDs, Cosim: hr.Cosim, Timeout: hr.Timeout,
			Props: map[string]bool{id: true}, AssertPrefixes: spec.Prefixes, SolverMs: 60000}
		if tier == "thorough" {
			rs.SolverMs = 120000
		}
		if rs.Timeout == 0 {
			rs.Timeout = 8 * time.Minute
			if tier == "thorough" {
				rs.Timeout = 45 * time.Minute
			}
		}
		res, err := prog.Run(rs)
		if err != nil {
			fmt.Println(err)
			inconclusive = append(inconclusive, err.Error())
			continue
		}
		fmt.Print(res.Summary())
		results = append(results, res)
		mergeStats(total, res.Stats)
	}
	for _, x := range total.Inconclusive {
		inconclusive = append(inconclusive, x)
	}
	// vacuity guard: required cover labels
	for _, c := range spec.Required {
		if total.Covers[c] == 0 {
			inconclusive = append(inconclusive, "VACUOUS: required situation never reached: "+c)
		}
	}
	// violations relevant to this property
	var cases []nativeCase
	var viol []Violation
	for _, v := range total.Violations {
		if matchesPrefix(v.Label, spec.Prefixes) {
			viol = append(viol, v)
		}
	}
	dirOf := func(h string) string {
		p := h
		if i := strings.Index(p, "["); i >= 0 {
			p = p[:i]
		}
		p = p[:strings.LastIndex(p, ".")]
		return strings.TrimPrefix(p, "tkestack.io/kvass/pkg/")
	}
	entryOf := func(h string) (string, []int) {
		// "pkg/path.Name[1 2]"
		name := h
		if i := strings.Index(name, "["); i >= 0 {
			name = h[strings.LastIndex(h[:i], ".")+1:]
		} else {
			name = h[strings.LastIndex(h, ".")+1:]
		}
		var args []int
		if i := strings.Index(name, "["); i >= 0 {
			for _, f := range strings.Fields(strings.Trim(name[i:], "[]")) {
				v, _ := strconv.Atoi(f)
				args = append(args, v)
			}
			name = name[:i]
		}
		return name, args
	}
	var knownList []string
	for k := range knownIDs {
		knownList = append(knownList, k)
	}
	sort.Strings(knownList)
	symConfirmed := map[int]bool{}
	symCache := map[string]bool{} // (harness, label, inputs) -> confirmed: equal witnesses are re-executed once
	// At most replayPerLabel candidates of one (harness, assertion) are replayed natively, evenly
	// spread over the list: a broken tree can produce hundreds of candidates of the same clause and
	// each one that needs many repetitions costs minutes. The others are listed as candidates only;
	// a VIOLATION line still needs a native reproduction. (No candidates on a tree that holds.)
	const replayPerLabel = 6
	notReplayed := map[int]bool{}
	{
		groups := map[string][]int{}
		for i, v := range viol {
			if !strings.HasPrefix(v.Label, "sym:") {
				k := v.Harness + "|" + v.Label
				groups[k] = append(groups[k], i)
			}
		}
		for _, g := range groups {
			if len(g) <= replayPerLabel {
				continue
			}
			keep := map[int]bool{}
			for k := 0; k < replayPerLabel; k++ {
				keep[g[k*(len(g)-1)/(replayPerLabel-1)]] = true
			}
			for _, i := range g {
				if !keep[i] {
					notReplayed[i] = true
				}
			}
		}
		if len(notReplayed) > 0 {
			fmt.Printf("(%d further candidates of already sampled assertions are not replayed natively)\n", len(notReplayed))
		}
	}
	for i, v := range viol {
		if notReplayed[i] {
			continue
		}
		if strings.HasPrefix(v.Label, "sym:") {
			ckey := v.Harness + "|" + v.Label + "|" + fmt.Sprint(v.Inputs)
			if c, done := symCache[ckey]; done {
				symConfirmed[i] = c
				continue
			}
			symCache[ckey] = false
			// engine-only observation: confirm by a concrete re-execution of the real SSA with the
			// model's inputs (every nondeterministic order explored); it must fail again on some path
			for _, res := range results {
				if res.Spec.Entry+fmt.Sprint(res.Spec.Args) != v.Harness {
					continue
				}
				rs := res.Spec
				rs.Concrete = v.Inputs
				rs.Workers, rs.Cosim, rs.XCheck, rs.MergeAt = 8, 0, false, nil
				cres, err := prog.Run(rs)
				if err == nil {
					for _, cv := range cres.Stats.Violations {
						if cv.Label == v.Label {
							symConfirmed[i] = true
							symCache[ckey] = true
						}
					}
				}
				break
			}
			continue
		}
		e, a := entryOf(v.Harness)
		cases = append(cases, nativeCase{Dir: dirOf(v.Harness), ID: fmt.Sprintf("viol-%03d", i), Entry: e, Args: a, Inputs: v.Inputs, Known: knownList,
			Props: []string{id}, Want: v.Label, Reps: 3000})
	}
	// known findings that reproduce symbolically
	var knownHits []string
	for k, v := range total.Known {
		fid := strings.SplitN(k, "|", 2)[0]
		if kf, ok := knownByID[fid]; ok && kf.Property == id {
			knownHits = append(knownHits, k)
			e, a := entryOf(v.Harness)
			// replay without the finding listed as known, so that the assertion fails natively
			cases = append(cases, nativeCase{Dir: dirOf(v.Harness), ID: "known-" + k, Entry: e, Args: a, Inputs: v.Inputs, Known: nil,
				Props: []string{id}, Want: v.Label, Reps: 3000})
		}
	}
	sort.Strings(knownHits)
	// co-simulation samples: concrete-mode engine run gives the admissible trace set
	cosimN := 0
	nCos := 0
	for _, res := range results {
		cs := res.Stats.CosimCases
		if len(cs) == 0 {
			continue
		}
		// seed-dependent sample
		want := res.Spec.Cosim
		if want > len(cs) {
			want = len(cs)
		}
		for k := 0; k < want; k++ {
			c := cs[(k*7919+seed)%len(cs)]
			rs := res.Spec
			rs.Concrete = c.Inputs
			rs.Workers = 1
			rs.Cosim = 0
			rs.XCheck = false
			rs.MergeAt = nil
			cres, err := prog.Run(rs)
			if err != nil || len(cres.Stats.Inconclusive) > 0 {
				inconclusive = append(inconclusive, fmt.Sprintf("co-simulation engine run failed: %v %v", err, cres.Stats.Inconclusive))
				continue
			}
			e, a := entryOf(c.Harness)
			reps := 1
			if len(cres.Traces) > 1 {
				reps = 300
			}
			cases = append(cases, nativeCase{Dir: dirOf(c.Harness), ID: fmt.Sprintf("cosim-%03d", nCos), Entry: e, Args: a, Inputs: c.Inputs, Known: knownList,
				Props: []string{id}, Expect: dedupTraces(cres.Traces), Reps: reps})
			nCos++
		}
	}
	exit := 0
	var confirmed []Violation
	var replayFiles []string
	if len(cases) > 0 {
		var nres []nativeResult
		var err error
		byDir := map[string][]nativeCase{}
		var dirs []string
		for _, c := range cases {
			if _, ok := byDir[c.Dir]; !ok {
				dirs = append(dirs, c.Dir)
			}
			byDir[c.Dir] = append(byDir[c.Dir], c)
		}
		for _, dir := range dirs {
			r, e := runNative(repo, dir, byDir[dir])
			if e != nil {
				err = e
				break
			}
			nres = append(nres, r...)
		}
		if err != nil {
			inconclusive = append(inconclusive, "native replay failed: "+err.Error())
		} else {
			byID := map[string]nativeResult{}
			for _, r := range nres {
				byID[r.ID] = r
			}
			for i, v := range viol {
				if strings.HasPrefix(v.Label, "sym:") {
					continue
				}
				if notReplayed[i] {
					continue
				}
				r := byID[fmt.Sprintf("viol-%03d", i)]
				if r.Reproduced {
					confirmed = append(confirmed, v)
				} else {
					inconclusive = append(inconclusive, fmt.Sprintf("SPURIOUS-COUNTEREXAMPLE %s: solver model did not reproduce natively in %d runs (assume_failed=%d panic=%q) inputs=%v",
						v.Label, r.Runs, r.Skipped, r.Panic, v.Inputs))
				}
			}
			for _, k := range knownHits {
				r := byID["known-"+k]
				if !r.Reproduced {
					inconclusive = append(inconclusive, fmt.Sprintf("known finding %s has a symbolic witness that did not reproduce natively (runs=%d assume_failed=%d panic=%q)", k, r.Runs, r.Skipped, r.Panic))
				}
			}
			for _, c := range cases {
				if !strings.HasPrefix(c.ID, "cosim-") {
					continue
				}
				r := byID[c.ID]
				if len(r.Mismatch) > 0 || r.Panic != "" || r.Runs == 0 {
					inconclusive = append(inconclusive, fmt.Sprintf("CO-SIMULATION MISMATCH %s: native trace %v (panic=%q) not among the %d traces predicted (first: %v) for inputs %v", c.ID, r.Mismatch, r.Panic, len(c.Expect), firstTrace(c.Expect), c.Inputs))
				} else if r.Skipped == r.Runs {
					inconclusive = append(inconclusive, fmt.Sprintf("co-simulation case %s: inputs violate the harness assumptions natively", c.ID))
				} else {
					cosimN++
				}
			}
		}
	}
	for i, v := range viol {
		if strings.HasPrefix(v.Label, "sym:") {
			if symConfirmed[i] {
				v.Detail = "engine-only observation; confirmed by concrete re-execution of the real SSA (not replayable in the native build)"
				confirmed = append(confirmed, v)
			} else {
				inconclusive = append(inconclusive, "SPURIOUS-COUNTEREXAMPLE "+v.Label+": did not fail again under concrete re-execution")
			}
		}
	}
	replayDir := filepath.Join(verifDir, "replays")
	if d := os.Getenv("VERIF_EVIDENCE_DIR"); d != "" {
		replayDir = d
	}
	os.MkdirAll(replayDir, 0755)
	if len(confirmed) > 8 {
		fmt.Printf("(%d reproduced violations; the first 8 are written out)\n", len(confirmed))
		confirmed = confirmed[:8]
	}
	for i, v := range confirmed {
		p := filepath.Join(replayDir, fmt.Sprintf("%s-%d.json", id, i))
		e, a := entryOf(v.Harness)
		b, _ := json.MarshalIndent(nativeCase{ID: "replay", Entry: e, Args: a, Inputs: v.Inputs, Known: knownList, Props: []string{id}, Want: v.Label, Reps: 3000}, "", " ")
		os.WriteFile(p, b, 0644)
		replayFiles = append(replayFiles, p)
		fmt.Printf("VIOLATION property=%s replay=%s\n", id, p)
		fmt.Printf("  assertion %s fails in %s; inputs %v; %s\n", v.Label, v.Harness, v.Inputs, v.Detail)
		exit = 1
	}
	// known findings of this property
	for _, kf := range known {
		if kf.Property != id || kf.Status != "known" {
			continue
		}
		hit := false
		for _, k := range knownHits {
			if strings.HasPrefix(k, kf.ID+"|") {
				hit = true
			}
		}
		if hit {
			fmt.Printf("KNOWN-FINDING: property=%s %s: %s\n", id, kf.ID, kf.What)
		} else {
			fmt.Printf("note: known finding %s of %s did not reproduce within this tier's bounds\n", kf.ID, id)
		}
	}
	if len(inconclusive) > 0 && exit == 0 {
		exit = 2
	}
	seenInc := map[string]bool{}
	for _, x := range inconclusive {
		if !seenInc[x] {
			seenInc[x] = true
			fmt.Println("INCONCLUSIVE property=" + id + " " + trunc(x, 1200))
		}
	}
	writeEvidence(spec, tier, seed, total, results, cosimN, len(confirmed), time.Since(t0), inconclusive)
	fmt.Printf("%s %s: exit=%d paths=%d queries=%d cosim=%d load=%.1fs wall=%.1fs\n", id, tier, exit, total.Paths,
		total.FeasQueries+total.PropQueries+total.XQueries, cosimN, loadT.Seconds(), time.Since(t0).Seconds())
	return exit
}

func dedupTraces(ts [][]string) [][]string {
	seen := map[string]bool{}
	var out [][]string
	for _, t := range ts {
		k := strings.Join(t, "\n")
		if !seen[k] {
			seen[k] = true
			if t == nil {
				t = []string{}
			}
			out = append(out, t)
		}
	}
	return out
}

// runNative compiles the harness package with the ordinary toolchain (overlay, -tags verif) and
// runs the given cases against the real code.
func runNative(repo, dir string, cases []nativeCase) ([]nativeResult, error) {
	tmp, err := os.MkdirTemp("", "symgo-native-")
	if err != nil {
		return nil, err
	}
	defer os.RemoveAll(tmp)
	repl := map[string]string{}
	hdir := filepath.Join(verifDir, "harness")
	err = filepath.Walk(hdir, func(p string, info os.FileInfo, err error) error {
		if err != nil || info.IsDir() || !strings.HasSuffix(p, ".go") {
			return err
		}
		rel, _ := filepath.Rel(hdir, p)
		d, f := filepath.Split(rel)
		repl[filepath.Join(repo, "pkg", d, "zz_verif_"+f)] = p
		return nil
	})
	if err != nil {
		return nil, err
	}
	// mask the package's own tests: they are not needed and some do not compile at this commit
	ents, _ := os.ReadDir(filepath.Join(repo, "pkg", dir))
	for _, e := range ents {
		if strings.HasSuffix(e.Name(), "_test.go") {
			repl[filepath.Join(repo, "pkg", dir, e.Name())] = ""
		}
	}
	ovb, _ := json.Marshal(map[string]interface{}{"Replace": repl})
	ovPath := filepath.Join(tmp, "overlay.json")
	os.WriteFile(ovPath, ovb, 0644)
	cb, _ := json.Marshal(cases)
	casesPath := filepath.Join(tmp, "cases.json")
	os.WriteFile(casesPath, cb, 0644)
	outPath := filepath.Join(tmp, "out.json")
	cmd := exec.Command("go", "test", "-tags", "verif", "-vet=off", "-count=1", "-timeout", "20m", "-overlay", ovPath, "-run", "^TestVReplay$", "./pkg/"+dir+"/")
	cmd.Dir = repo
	cmd.Env = append(os.Environ(), "GOFLAGS=-mod=mod", "GOPROXY=off", "GOSUMDB=off", "GOTOOLCHAIN=local", "VERIF_CASES="+casesPath, "VERIF_OUT="+outPath)
	var buf bytes.Buffer
	cmd.Stdout, cmd.Stderr = &buf, &buf
	runErr := cmd.Run()
	ob, err := os.ReadFile(outPath)
	if err != nil {
		return nil, fmt.Errorf("go test produced no result (%v): %s", runErr, trunc(buf.String(), 3000))
	}
	var res []nativeResult
	if err := json.Unmarshal(ob, &res); err != nil {
		return nil, err
	}
	return res, nil
}

func cmdReplay(id, file string) int {
	b, err := os.ReadFile(file)
	if err != nil {
		fmt.Fprintln(os.Stderr, err)
		return 2
	}
	var c nativeCase
	if err := json.Unmarshal(b, &c); err != nil {
		fmt.Fprintln(os.Stderr, err)
		return 2
	}
	spec, ok := propTable()[id]
	if !ok {
		fmt.Fprintln(os.Stderr, "unknown property", id)
		return 2
	}
	repo := os.Getenv("VERIF_REPO")
	if repo == "" {
		repo = "/repo"
	}
	res, err := runNative(repo, spec.NativeDir, []nativeCase{c})
	if err != nil {
		fmt.Fprintln(os.Stderr, err)
		return 2
	}
	out, _ := json.MarshalIndent(res, "", " ")
	fmt.Println(string(out))
	if len(res) == 1 && res[0].Reproduced {
		fmt.Printf("VIOLATION property=%s replay=%s\n", id, file)
		return 1
	}
	fmt.Println("not reproduced")
	return 0
}

func writeEvidence(spec PropSpec, tier string, seed int, st *Stats, results []*RunResult, cosim, violations int, wall time.Duration, inconclusive []string) {
	ev := map[string]interface{}{
		"property_id": spec.ID,
		"tier":        tier,
		"seed":        seed,
		"level":       "model_checking",
		"wall_s":      wall.Seconds(),
		"violations":  violations,
	}
	cov := map[string]interface{}{}
	assume := append([]string{}, spec.Assume...)
	if st != nil {
		var funcs, stubs []string
		for f := range st.Funcs {
			funcs = append(funcs, f)
		}
		sort.Strings(funcs)
		for f, n := range st.Stubs {
			stubs = append(stubs, fmt.Sprintf("%s (x%d)", f, n))
		}
		sort.Strings(stubs)
		var perRun []map[string]interface{}
		for _, r := range results {
			perRun = append(perRun, map[string]interface{}{
				"harness": r.Spec.Entry, "args": r.Spec.Args, "unwind_bound": r.Spec.Unwind, "paths": r.Stats.Paths, "infeasible": r.Stats.Dead,
				"forks": r.Stats.Forks, "merged": r.Stats.Merged, "feasibility_queries": r.Stats.FeasQueries, "property_queries": r.Stats.PropQueries,
				"cross_check_queries": r.Stats.XQueries, "solver_s": r.Stats.SolverTime.Seconds(), "wall_s": r.Wall.Seconds(),
				"asserts": r.Stats.AssertLabels, "asserts_unsat": r.Stats.AssertUnsat, "covers": r.Stats.Covers, "max_unwind": r.Stats.MaxUnwind,
			})
		}
		samples := []interface{}{}
		for _, s := range st.Samples {
			samples = append(samples, s)
		}
		if len(samples) == 0 {
			samples = append(samples, map[string]interface{}{"note": "every assertion on every explored path constant-folded (shape-only obligations)", "asserts": st.AssertLabels})
		}
		states := st.Paths
		if states < 1 {
			states = 1
		}
		trans := st.Forks
		if trans < 1 {
			trans = 1
		}
		cov["states"] = states
		cov["transitions"] = trans
		cov["traces_validated_against_impl"] = cosim
		cov["samples"] = samples
		cov["evaluations"] = st.FeasQueries + st.PropQueries + st.XQueries
		cov["distinct_nontrivial"] = len(st.PropQueryKeys)
		cov["rule"] = "a case is one explored path of the symbolically executed harness (path condition + nondeterministic choices); states = completed paths after merging, transitions = forks taken, evaluations = solver queries discharged (feasibility + property + cross-check); distinct_nontrivial counts distinct (assertion label, negated-assertion term, path condition) property queries that did not constant-fold and went to the solver"
		cov["exhaustive"] = len(inconclusive) == 0
		cov["functions_encoded"] = funcs
		cov["stubs_and_substitutions"] = stubs
		cov["runs"] = perRun
		cov["bounds"] = spec.Bounds
		cov["outside_claim"] = spec.Outside
		cov["solver_time_s"] = st.SolverTime.Seconds()
		cov["trivially_true_assertions"] = st.TrivialAsserts
		cov["solver_decided_assertions"] = st.NontrivialAsserts
		cov["unknown_feasibility_kept"] = st.Unknown
		cov["cross_check_unknown"] = st.XUnknown
		cov["cross_check_policy"] = "every sat verdict, and the first 40 unsat verdicts of each of the 16 workers per harness run, are re-asked on cvc5 (thorough: also z3 5.1.0); a differing verdict makes the run inconclusive, an 'unknown' of the cross-check solver is counted"
		cov["solvers"] = "z3 4.8.12 incremental (1.5 s per query), falling back to one-shot cvc5 --solve-bv-as-int=sum / z3 5.1.0 / cvc5 (floating point); cvc5 1.0 cross-check per cross_check_policy" + map[bool]string{true: ", z3 5.1.0 second cross-check", false: ""}[tier == "thorough"]
		var kh []string
		for k := range st.Known {
			kh = append(kh, k)
		}
		sort.Strings(kh)
		cov["known_findings_reproduced"] = kh
	} else {
		cov["evaluations"] = 0
		cov["distinct_nontrivial"] = 0
	}
	if len(inconclusive) > 0 {
		cov["inconclusive"] = inconclusive
	}
	ev["coverage"] = cov
	ev["assumptions"] = assume
	evDir := filepath.Join(verifDir, "evidence")
	if d := os.Getenv("VERIF_EVIDENCE_DIR"); d != "" {
		evDir = d // development runs against scratch trees must not overwrite the committed evidence
	}
	os.MkdirAll(evDir, 0755)
	b, _ := json.MarshalIndent(ev, "", " ")
	os.WriteFile(filepath.Join(evDir, spec.ID+".json"), b, 0644)
}

func firstTrace(ts [][]string) []string {
	if len(ts) == 0 {
		return nil
	}
	return ts[0]
}
