package main

// Stubs for the hashing and address helpers behind discovery.targetHash / populateLabels.
// xxhash (labels.Labels.Hash) and FNV-64a are uninterpreted functions of what is fed to them:
// equal inputs give equal hashes, nothing is assumed about different inputs.

import (
	"net"
	"strings"
	"unicode/utf8"

	"golang.org/x/tools/go/ssa"
)

func (w *Worker) bytesTerm(v Value) *Term {
	sl, ok := v.(SliceV)
	if !ok || sl.O == nil {
		return w.tc.Str("")
	}
	arr := sl.O.Val.(*ArrayV)
	if sl.Len == 1 {
		if op, ok := arr.E[sl.Off].(OpaqueV); ok && op.Tag == "symbytes" {
			return op.X.(*Term)
		}
	}
	buf := make([]byte, sl.Len)
	for i := 0; i < sl.Len; i++ {
		t, ok := arr.E[sl.Off+i].(*Term)
		if !ok || !t.Const {
			panic(unsupported{"hash of symbolic bytes"})
		}
		buf[i] = byte(t.U)
	}
	return w.tc.Str(string(buf))
}

func init() {
	stubs["(github.com/prometheus/prometheus/model/labels.Labels).Hash"] = func(w *Worker, s *State, f *Frame, fn *ssa.Function, a []Value, d int) (Value, bool) {
		var names []string
		var vals []*Term
		for _, l := range sliceElemsOrNil(a[0]) {
			lv := l.(*StructV)
			names = append(names, w.concStr(lv.F[0], "label name"))
			vals = append(vals, lv.F[1].(*Term))
		}
		return w.tc.UF("xxhash["+strings.Join(names, ",")+"]", bv(64), vals...), false
	}
	stubs["hash/fnv.New64a"] = func(w *Worker, s *State, f *Frame, fn *ssa.Function, a []Value, d int) (Value, bool) {
		s.nOpaque++
		t := fn.Signature.Results().At(0).Type()
		o := s.newObj("cell", TupleV{})
		return IfaceV{T: t, V: OpaqueV{T: t, ID: s.nOpaque, Tag: "fnv", X: Ptr{O: o}}}, false
	}
	opaqueHandlers["fnv.Write"] = func(w *Worker, s *State, op OpaqueV, args []Value) Value {
		cell := op.X.(Ptr).O
		cell.Val = append(append(TupleV{}, cell.Val.(TupleV)...), w.bytesTerm(args[0]))
		return TupleV{w.tc.BV(64, 0), IfaceV{}}
	}
	opaqueHandlers["fnv.Sum64"] = func(w *Worker, s *State, op OpaqueV, args []Value) Value {
		var ts []*Term
		// FNV is a function of the byte stream, not of how it was cut into Write calls:
		// adjacent concrete pieces are joined, so Write("ab"),Write("c") and Write("a"),Write("bc")
		// give the same term (symbolic pieces stay separate, which can only make hashes look more different)
		for _, v := range op.X.(Ptr).O.Val.(TupleV) {
			t := v.(*Term)
			if n := len(ts); n > 0 && t.Const && ts[n-1].Const {
				ts[n-1] = w.tc.Str(ts[n-1].S + t.S)
				continue
			}
			ts = append(ts, t)
		}
		return w.tc.UF("fnv64a", bv(64), ts...)
	}
	stubs["net.SplitHostPort"] = func(w *Worker, s *State, f *Frame, fn *ssa.Function, a []Value, d int) (Value, bool) {
		h, p, err := net.SplitHostPort(w.concStr(a[0], "address (addresses are concrete in the hash harness)"))
		if err != nil {
			return TupleV{w.tc.Str(""), w.tc.Str(""), w.newError(s, w.tc.Str(err.Error()))}, false
		}
		return TupleV{w.tc.Str(h), w.tc.Str(p), IfaceV{}}, false
	}
	stubs["github.com/prometheus/prometheus/config.CheckTargetAddress"] = func(w *Worker, s *State, f *Frame, fn *ssa.Function, a []Value, d int) (Value, bool) {
		if strings.Contains(w.concStr(a[0], "target address"), "/") {
			return w.newError(s, w.tc.Str("not a valid hostname")), false
		}
		return IfaceV{}, false
	}
	stubs["(github.com/prometheus/common/model.LabelValue).IsValid"] = func(w *Worker, s *State, f *Frame, fn *ssa.Function, a []Value, d int) (Value, bool) {
		t := w.term(a[0])
		if t.Const {
			return w.tc.Bool(utf8.ValidString(t.S)), false
		}
		return w.tc.True, false // symbolic label values range over valid UTF-8 strings
	}
	stubs["(github.com/prometheus/common/model.LabelName).IsValid"] = func(w *Worker, s *State, f *Frame, fn *ssa.Function, a []Value, d int) (Value, bool) {
		n := w.concStr(a[0], "label name")
		ok := len(n) > 0
		for i, c := range n {
			if !((c >= 'a' && c <= 'z') || (c >= 'A' && c <= 'Z') || c == '_' || (c >= '0' && c <= '9' && i > 0)) {
				ok = false
			}
		}
		return w.tc.Bool(ok), false
	}
}

func init() {
	stubs["math/bits.Len"] = func(w *Worker, s *State, f *Frame, fn *ssa.Function, a []Value, d int) (Value, bool) {
		t := w.term(a[0])
		if !t.Const {
			panic(unsupported{"bits.Len of a symbolic value"})
		}
		n := 0
		for x := t.U; x != 0; x >>= 1 {
			n++
		}
		return w.tc.BV(64, uint64(n)), false
	}
}
