package main

const coordPkg = "tkestack.io/kvass/pkg/coordinator"

var wfAssumptions = []string{
	"report well-formedness (WF): status entries non-nil; TargetState in {\"\", in_transfer}; Health in {up, down, unknown}; Series, TotalSeries, HeadSeries, ProcessSeries in [0, 2^40]; ScrapeTimes in [0, 2^16]",
	"options: MaxProcessSeries in [1, 2^40], MaxHeadSeries in [0, 2^40], 0 <= MinShard <= MaxShard <= 8, 0 <= MaxIdleTime <= 2^50 ns",
	"logging (logrus) and metrics (client_golang) calls are no-ops; errors are opaque non-nil values",
	"errgroup.Group.Go runs the closure synchronously (per-shard closures assumed data-race free)",
	"weightedrand.Chooser.Pick may return any choice with weight >= 1",
	"map iteration visits the entries in every possible order (explored exhaustively)",
}

func propTable() map[string]PropSpec {
	t := map[string]PropSpec{}
	t["C05"] = PropSpec{
		ID: "C05", Pkg: coordPkg, NativeDir: "coordinator",
		Quick:    []HarnessRun{{Entry: "VGC", Args: []int{2, 1}, Cosim: 8}, {Entry: "VGC", Args: []int{2, 2}, Cosim: 8}},
		Thorough: []HarnessRun{{Entry: "VGC", Args: []int{2, 2}, Cosim: 16}, {Entry: "VGC", Args: []int{3, 1}, Cosim: 16}, {Entry: "VGC", Args: []int{3, 2}, Cosim: 8}},
		Required: []string{"gc.handover", "gc.removed"},
		Prefixes: []string{"C05."},
		Bounds:   "S<=2 shards, K<=2 hashes (quick); S<=3, K<=2 (thorough); loop unwinding 12 with unwinding assertion",
		Assume:   wfAssumptions,
		Outside:  []string{"S>3, K>2", "series values >= 2^40", "multi-cycle composition (argued in DESIGN.md section 5/C05)"},
	}
	return t
}
