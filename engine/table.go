package main

import (
	"fmt"
	"time"
)

const coordPkg = "tkestack.io/kvass/pkg/coordinator"

var wfAssumptions = []string{
	"report well-formedness (WF): status entries non-nil; TargetState in {\"\", in_transfer}; Health in {up, down, unknown}; Series, TotalSeries, HeadSeries, ProcessSeries in [0, 2^40]; ScrapeTimes in [0, 2^16]",
	"options: MaxProcessSeries in [1, 2^40], MaxHeadSeries in [0, 2^40], 0 <= MinShard <= MaxShard <= 8, 0 <= MaxIdleTime <= 2^50 ns",
	"logging (logrus) and metrics (client_golang) calls are no-ops; errors are opaque non-nil values",
	"errgroup.Group.Go runs the closure synchronously (per-shard closures assumed data-race free)",
	"weightedrand.Chooser.Pick may return any choice with weight >= 1",
	"map iteration visits the entries in every possible order (explored exhaustively)",
}

func propTable() map[string]PropSpec {
	t := map[string]PropSpec{}
	swr := map[string]string{coordPkg + ".seriesWithRate": coordPkg + ".vSwr"}
	H := func(entry string, cosim int, args ...int) HarnessRun {
		return HarnessRun{Entry: entry, Args: args, Cosim: cosim, Subst: swr}
	}
	L := func(entry string, cosim int, args ...int) HarnessRun {
		return HarnessRun{Entry: entry, Args: args, Cosim: cosim, Subst: swr, Unwind: 40}
	}
	lemmas := []HarnessRun{H("VLemmaSwr", 0, 0), H("VLemmaSwr", 0, 1), H("VLemmaSwr", 0, 2), H("VLemmaSwr", 0, 3), H("VLemmaSwr", 0, 4), H("VLemmaSwr", 0, 5), H("VLemmaSwr", 0, 6)}
	for i := range lemmas {
		lemmas[i].Subst = nil // the lemma obligations run the real seriesWithRate in floating-point theory
	}
	cycleOutside := []string{"more shards / targets than the stated (S,K) configurations", "series and limit values above 2^40, scrape counters above 2^16", "needed space / limit >= 2^31 (int32 conversion in tryScaleUp) is not excluded: it is inside the bound and decided exactly",
		"data races between the per-shard goroutines of getShardInfos/applyShardsInfo (errgroup closures run synchronously)", "the HTTP/JSON transport between shard.Shard and the sidecar (Shard.APIGet/APIPost are the observation points)"}
	t["C01"] = PropSpec{
		ID: "C01", Pkg: coordPkg, NativeDir: "coordinator",
		Quick:    append([]HarnessRun{H("VGC", 8, 2, 2), H("VRelief", 4, 2, 1, 0), H("VRelief", 4, 2, 2, 1), H("VAssign", 4, 2, 2), H("VScaleDown", 4, 2, 1, 0), H("VCycle", 12, 1, 1, 3), H("VCycle", 4, 2, 0, 2), H("VCycle", 6, 2, 1, 32), H("VCycle", 4, 2, 1, 24), H("VTransfer", 4), {Entry: "VUpdateTarget", Pkg: "tkestack.io/kvass/pkg/shard", Args: []int{2}, Cosim: 8}}, lemmas...),
		Thorough: append([]HarnessRun{H("VGC", 8, 3, 1), H("VGC", 8, 3, 2), H("VRelief", 4, 2, 2, 2), H("VAssign", 4, 3, 1), H("VScaleDown", 4, 2, 2, 0), {Entry: "VUpdateTarget", Pkg: "tkestack.io/kvass/pkg/shard", Args: []int{3}, Cosim: 8}}, lemmas...),
		Required: []string{"gc.removed", "gc.rule1", "c01.reported", "c01.removed", "relief.moved", "assign.placed", "cycle.end"},
		Prefixes: []string{"C01."},
		Bounds:   "phase lemmas (gcTargets, alleviateShards, assignNoScrapingTargets, tryScaleDown) from arbitrary well-formed pre-states with S<=2 shards, K<=2 hashes (alleviateShards: K=1 with a head limit, K=2 without one and all shards in sync); whole runOnce cycles at (S,K) = (1,1) with failing POSTs / ChangeScale, (2,0), (2,1) without relief and (2,1) with relief on concrete, different shard loads and symbolic limits; thorough adds gcTargets at (3,1), (3,2), assignment at (3,1), scale-down at (2,2) and process-series relief at (2,2) under an unreached head limit; every map-iteration order and random pick; loop unwinding 12 with unwinding assertion",
		Assume:   wfAssumptions, Outside: cycleOutside,
	}
	t["C04"] = PropSpec{
		ID: "C04", Pkg: coordPkg, NativeDir: "coordinator",
		Quick:    append([]HarnessRun{H("VTransfer", 4), H("VRelief", 6, 2, 1, 0), H("VRelief", 4, 2, 2, 1), H("VRelief", 4, 2, 2, 3), H("VAssign", 6, 2, 2), H("VScaleDown", 6, 2, 2, 0), H("VScaleDown", 4, 3, 1, 0), H("VCycle", 12, 1, 1, 0)}, lemmas...),
		Thorough: append([]HarnessRun{H("VRelief", 6, 2, 2, 2), H("VAssign", 6, 3, 2)}, lemmas...),
		Required: []string{"relief.placed", "assign.placed", "scaledown.placed", "c04.placed", "c04.scalecall"},
		Prefixes: []string{"C04."},
		Bounds:   "one lemma per placement site (head relief at K=1, process relief at K=2 without a head limit and - with both targets on one shard - under an unreached head limit that the receiving shard must respect, first assignment, scale-down transfer - the latter also at (3,1), where two front shards differ in room) with S<=2, K<=2; whole cycles at (1,1); thorough adds first assignment at (3,2) and process relief at (2,2) under an unreached head limit (the receiving shard's head limit must be respected)",
		Assume:   wfAssumptions, Outside: cycleOutside,
	}
	t["C05"] = PropSpec{
		ID: "C05", Pkg: coordPkg, NativeDir: "coordinator",
		Quick:    []HarnessRun{H("VGC", 8, 2, 1), H("VGC", 8, 2, 2), H("VTransfer", 2), H("VRelief", 4, 2, 1, 0), H("VRelief", 4, 2, 2, 1), H("VScaleDown", 4, 2, 1, 0), H("VCycle", 8, 1, 1, 0), H("VCycle", 8, 2, 1, 40), H("VCycle", 4, 2, 1, 24)},
		Thorough: []HarnessRun{H("VGC", 8, 3, 1), H("VGC", 8, 3, 2), H("VRelief", 4, 2, 2, 2), H("VScaleDown", 4, 2, 2, 0), {Entry: "VCycle", Args: []int{2, 1, 8}, Cosim: 8, Subst: swr, Timeout: 40 * time.Minute}},
		Required: []string{"gc.handover", "gc.removed", "relief.moved", "scaledown.moved", "c05.moved", "c05.handover"},
		Prefixes: []string{"C05."},
		Bounds:   "gcTargets / relief / scale-down lemmas with S<=2, K<=2 (relief: K=1 with a head limit, K=2 without); whole cycles at (1,1), (2,1) without relief, (2,1) with relief on concrete, different shard loads; thorough adds gcTargets at (3,1), (3,2), scale-down at (2,2), relief at (2,2) under an unreached head limit and the fully symbolic whole cycle (2,1) with relief and all shards in sync; the constant 3 of the hand-over rule is taken from README, not from the code",
		Assume:   wfAssumptions,
		Outside:  append([]string{"multi-cycle composition of clauses (i)-(iii) into 'no interval without a scraper' is argued in DESIGN.md, each clause is decided per cycle"}, cycleOutside...),
	}
	t["C07"] = PropSpec{
		ID: "C07", Pkg: coordPkg, NativeDir: "coordinator",
		Quick:    []HarnessRun{H("VScaleDown", 6, 2, 1, 0), H("VScaleDown", 6, 3, 1, 0), H("VScaleDown", 4, 4, 2, 1), H("VCycle", 12, 1, 1, 0), H("VCycle", 8, 2, 0, 0), H("VCycle", 6, 2, 1, 32)},
		Thorough: []HarnessRun{H("VScaleDown", 6, 2, 2, 0), H("VCycle", 12, 1, 1, 2)},
		Required: []string{"scaledown.end", "c07.scalecall", "scaledown.moved"},
		Prefixes: []string{"C07."},
		Bounds:   "every ChangeScale argument of whole cycles at (S,K) = (1,1), (2,0), (2,1) without relief, with symbolic idle instants against a symbolic clock; tryScaleDown lemma at (2,1), (3,1) and the drain scenario at (4,2) (two targets on the last but one shard, an idle last shard, free loads of the two front shards, no head limit: first-fit packing in every pair of iteration orders); thorough adds the lemma at (2,2) and the cycle (1,1) with failing scale requests",
		Assume:   append([]string{"time.Now: first reading arbitrary in [0,2^60), each later reading adds an arbitrary step in [0,2^50] ns; a shard whose idle time expires during the cycle is exempt from the keeps-used clause"}, wfAssumptions...),
		Outside:  cycleOutside,
	}
	t["C08"] = PropSpec{
		ID: "C08", Pkg: coordPkg, NativeDir: "coordinator",
		Quick:    []HarnessRun{H("VCycle", 12, 1, 1, 7), H("VCycle", 6, 2, 0, 4), H("VCycle", 6, 2, 1, 32), H("VAssign", 4, 2, 2), H("VRelief", 4, 2, 1, 0), H("VRelief", 4, 2, 2, 1), H("VScaleDown", 4, 2, 1, 0), H("VScaleDown", 4, 3, 1, 0)},
		Thorough: []HarnessRun{H("VAssign", 4, 3, 2), H("VRelief", 4, 2, 2, 2)},
		Required: []string{"c08.unready", "c08.statusfail", "c08.runtimefail", "c08.hashdiffers", "c08.outofsync", "c08.insync", "c08.heldoutofsync", "assign.placed"},
		Prefixes: []string{"C08."},
		Bounds:   "complete request log per shard under the full seven-step health script (ready, status GET, runtime GET, hash - another configuration's or the empty one, config POST, second runtime GET, hash) at (S,K) = (1,1) incl. failing POSTs, (2,0); whole cycle (2,1) without relief over every shard kind; destination-is-in-sync lemmas for every placement site with S<=3 (assignment (2,2), relief (2,1) and (2,2), scale-down (2,1), (3,1)); thorough adds assignment at (3,2) and relief at (2,2) under an unreached head limit",
		Assume:   wfAssumptions, Outside: cycleOutside,
	}
	sidePkg := "tkestack.io/kvass/pkg/sidecar"
	scrapePkg := "tkestack.io/kvass/pkg/scrape"
	targetPkg := "tkestack.io/kvass/pkg/target"
	proxySubst := map[string]string{
		"(*net/http.Client).Do": sidePkg + ".vClientDo",
		"github.com/VictoriaMetrics/VictoriaMetrics/lib/protoparser/prometheus.ParseStream": sidePkg + ".vParseStream",
		"github.com/VictoriaMetrics/VictoriaMetrics/lib/protoparser/common.GetGzipReader":   sidePkg + ".vGetGzipReader",
		"github.com/VictoriaMetrics/VictoriaMetrics/lib/protoparser/common.PutGzipReader":   sidePkg + ".vPutGzipReader",
		"(*github.com/klauspost/compress/gzip.Reader).Read":                                  sidePkg + ".vGzipRead",
		"github.com/prometheus/prometheus/model/relabel.Process":                             scrapePkg + ".VRelabelModel",
	}
	relabelSubst := map[string]string{"github.com/prometheus/prometheus/model/relabel.Process": scrapePkg + ".VRelabelModel"}
	P := func(entry string, cosim int, args ...int) HarnessRun {
		return HarnessRun{Entry: entry, Pkg: sidePkg, Args: args, Cosim: cosim, Subst: proxySubst, Unwind: 160}
	}
	sideAssume := []string{
		"logging and metrics calls are no-ops; errors are opaque non-nil values; fmt.Errorf with literal text in the format never yields the empty string",
		"abstract store: json.Marshal snapshots the object graph (fields tagged json:\"-\" are not restored), a file is absent / whole blob / proper prefix, json.Unmarshal succeeds iff given a whole blob and otherwise leaves the destination untouched, ioutil.WriteFile truncates then writes",
		"timeNow (the sidecar's clock variable) is set by the harness to symbolic instants",
	}
	t["C10"] = PropSpec{
		ID: "C10", Pkg: sidePkg, NativeDir: "sidecar",
		Quick:    []HarnessRun{{Entry: "VTMStep", Args: []int{2}, Cosim: 12}, {Entry: "VTMRestart", Args: []int{2}, Cosim: 6}},
		Thorough: []HarnessRun{{Entry: "VTMStep", Args: []int{2}, Cosim: 16}, {Entry: "VTMStep", Args: []int{3}, Cosim: 16}, {Entry: "VTMRestart", Args: []int{2}, Cosim: 8}},
		Required: []string{"tm.kept", "tm.new", "tm.becomes.idle", "tm.stays.idle", "restart.end", "restart.idle", "restart.second.acked", "restart.second.refused"},
		Prefixes: []string{"C10."},
		Bounds:   "one inductive step of UpdateTargets/updateStatus/updateIdleState/doCallbacks/saveTargets + Service.runtimeInfo from an arbitrary state satisfying the representation invariant, over a universe of K<=2 hashes (thorough 3) and 2 jobs, any request (adds, removals, state flips, repeats, empty, moves between jobs, an empty job list), failing callback; base case and restart through Load on the abstract store",
		Assume:   sideAssume,
		Outside:  []string{"K>3 hashes, more than 2 jobs", "interleaving of updates with concurrent scrapes (the proxy mutates the same status objects without a lock)", "byte-level JSON fidelity of the store (contract of the abstract store)"},
	}
	t["C09"] = PropSpec{
		ID: "C09", Pkg: sidePkg, NativeDir: "sidecar",
		Quick:    []HarnessRun{{Entry: "VStoreCrash", Args: []int{1}, Cosim: 12}, {Entry: "VTMRestart", Args: []int{1}, Cosim: 6}, {Entry: "VTMRestart", Args: []int{2}, Cosim: 6}},
		Thorough: []HarnessRun{{Entry: "VTMRestart", Args: []int{2}, Cosim: 8}},
		Required: []string{"fs.write.ok", "fs.write.err.before", "fs.write.err.partial", "fs.kill.before", "fs.kill.partial", "fs.rename", "store.old", "store.end", "restart.end", "restart.second.refused"},
		Prefixes: []string{"C09."},
		Bounds:   "two consecutive arbitrary assignments over K<=1 hashes (restart harness: K<=2), both states, empty sets; the second update interrupted by each store fault (error before / after a proper prefix, process killed before / part-way / one byte before the end of the document); then two consecutive restarts; old-version store file present or not; the store written through ioutil.WriteFile or through os.OpenFile + Write (+ Sync, Close), followed by os.Rename",
		Assume:   sideAssume,
		Outside:  []string{"byte-level JSON fidelity (label values needing escaping, large sets): encoding/json is reflection-driven and is the contract of the abstract store; exercised only by the native co-simulation samples", "the exact byte offset of a partial write: every proper prefix (including the empty file) is one case of the store model", "document lengths are symbolic: a document with more targets is longer (by more than a byte) than one with fewer, documents with equally many targets are unrelated; without O_TRUNC the tail of a longer old file survives behind a shorter new document", "fsync / power-loss semantics (a completed write is durable), directory entries, permissions"},
	}
	t["C13"] = PropSpec{
		ID: "C13", Pkg: sidePkg, LoadPkgs: []string{scrapePkg}, NativeDir: "sidecar",
		Quick:    []HarnessRun{P("VProxy", 24, 0), P("VProxy", 0, 1)},
		Thorough: []HarnessRun{P("VProxy", 64, 0), P("VProxy", 0, 1)},
		Required: []string{"proxy.ok", "proxy.failed", "proxy.notattempted", "proxy.stopped", "proxy.end"},
		Prefixes: []string{"C13."},
		Bounds:   "one request through Proxy.ServeHTTP, translateURL, Scraper.RequestTo/ParseResponse, wrappedReader.Read, StatisticSeries, ScrapeStatus.SetScrapeErr/UpdateScrapeResult against a scripted target: connection error, non-200, failing gzip header, a 51-byte payload split into <=3 chunks breaking off after 0..3 delivered reads (before and after the response was committed), EOF with or without data, empty body, scraping stopped, target assigned or not, unknown job / unparsable hash, Prometheus-side write failing at the 1st or 2nd write or accepting short writes",
		Assume:   append([]string{"net/http.ResponseWriter contract: first Write commits 200 unless WriteHeader came earlier, WriteHeader after commit is ignored, returning normally completes the response", "ParseStream contract model: reads until the reader reports an error; io.EOF = success and the callback receives the rows of everything read; other errors are returned", "(*http.Client).Do returns the scripted response; the gzip reader is an opaque reader over the decompressed bytes"}, sideAssume...),
		Outside:  []string{"time-outs as wall-clock events (only the error path they produce)", "real TCP behaviour below io.Reader", "VictoriaMetrics' parser itself and real gzip decoding (contract stubs; the identity-encoding cases are co-simulated against the real libraries)"},
	}
	c12 := t["C13"]
	c12.ID = "C12"
	c12.Quick = []HarnessRun{{Entry: "VTee", Pkg: scrapePkg, Args: []int{3, 2}, Cosim: 12}, P("VProxy", 16, 0), P("VProxy", 0, 1)}
	c12.Thorough = []HarnessRun{{Entry: "VTee", Pkg: scrapePkg, Args: []int{4, 2}, Cosim: 16}, P("VProxy", 48, 0), P("VProxy", 0, 1)}
	c12.Required = []string{"tee.writer.complete", "tee.writer.failed", "proxy.ok", "tee.end"}
	c12.Prefixes = []string{"C12."}
	c12.Bounds = "tee kernel wrappedReader.Read: one reader step (n, err) with n <= 3 symbolic bytes (thorough 4), 2 writers each with <= 3 partial writes of 1-2 bytes and a failure at call 1..3; whole responses through Proxy.ServeHTTP as in C13 (51-byte payload, <= 3 chunks, identity and gzip path)"
	c12.Outside = []string{"that VictoriaMetrics' ParseStream really drains the reader for every payload within its line limit (contract stub)", "real gzip decoding, many-megabyte bodies, HTTP chunking below io.Reader", "payload contents other than the fixed 51-byte exposition text in the whole-response harness (the tee kernel is decided for arbitrary bytes)"}
	t["C12"] = c12
	relSubst := map[string]string{scrapePkg + ".newJobInfo": scrapePkg + ".vNewJobInfo"}
	t["C14"] = PropSpec{
		ID: "C14", Pkg: scrapePkg, LoadPkgs: []string{targetPkg, sidePkg}, NativeDir: "scrape",
		Quick: []HarnessRun{{Entry: "VStats", Args: []int{3}, Subst: relabelSubst, Cosim: 8},
			{Entry: "VWindow", Pkg: targetPkg, Args: []int{0, 20}}, {Entry: "VWindow", Pkg: targetPkg, Args: []int{1, 20}}, {Entry: "VWindow", Pkg: targetPkg, Args: []int{2, 20}}, {Entry: "VWindow", Pkg: targetPkg, Args: []int{3, 20}},
			{Entry: "VTMStep", Pkg: sidePkg, Args: []int{2}}, P("VProxy", 0, 0), {Entry: "VManagerReload", Subst: relSubst, Cosim: 4}},
		Thorough: []HarnessRun{{Entry: "VStats", Args: []int{4}, Subst: relabelSubst, Cosim: 8},
			{Entry: "VWindow", Pkg: targetPkg, Args: []int{0, 32}}, {Entry: "VWindow", Pkg: targetPkg, Args: []int{1, 32}}, {Entry: "VWindow", Pkg: targetPkg, Args: []int{2, 32}}, {Entry: "VWindow", Pkg: targetPkg, Args: []int{3, 32}},
			{Entry: "VTMStep", Pkg: sidePkg, Args: []int{3}}, P("VProxy", 0, 0)},
		Required: []string{"stats.end", "window.end", "tm.end", "proxy.ok", "reload.job.kept", "reload.end"},
		Prefixes: []string{"C14."},
		Bounds:   "StatisticSeries over <= 3 rows (thorough 4) in two blocks, metric names from a pool of 2, symbolic keep/drop verdict per row; UpdateScrapeResult from an arbitrary window of length 0..3 with values < 2^20 (thorough 2^32) in exact floating-point theory; Service.runtimeInfo sums over <= 2 (3) targets; composition through Proxy.ServeHTTP on the fixed 5-sample payload; scrape.Manager.ApplyConfig twice over 2 jobs, each absent or with one of three metric-relabel rule lists: after the reload GetJob hands out exactly the current configuration's rules (newJobInfo summarised: the HTTP client construction is not executed; os.Getenv returns the empty string)",
		Assume:   append([]string{"relabel.Process contract model: identity when no rule is configured, otherwise nil (dropped) or the label set (kept) per sample"}, sideAssume...),
		Outside:  []string{"the relabel rule language itself (regexp)", "window values >= 2^32", "/samples/ endpoint aggregation in the coordinator"},
	}
	k8sPkg := "tkestack.io/kvass/pkg/shard/kubernetes"
	k8sSubst := map[string]string{"k8s.io/apimachinery/pkg/api/errors.IsNotFound": k8sPkg + ".vIsNotFound", "sort.Slice": k8sPkg + ".vSortSlice"}
	K := func(entry string, cosim int, args ...int) HarnessRun {
		return HarnessRun{Entry: entry, Args: args, Cosim: cosim, Subst: k8sSubst, Unwind: 40}
	}
	t["C18"] = PropSpec{
		ID: "C18", Pkg: k8sPkg, NativeDir: "shard/kubernetes",
		Quick:    []HarnessRun{K("VChangeScale", 12, 1), K("VChangeScale", 12, 2), K("VShards", 6, 2), K("VShards", 6, 3), K("VShards", 3, 12), K("VReplicas", 8)},
		Thorough: []HarnessRun{K("VChangeScale", 24, 0), K("VChangeScale", 24, 1), K("VChangeScale", 24, 2), K("VShards", 6, 1), K("VShards", 6, 2), K("VShards", 12, 3), K("VShards", 3, 12), K("VReplicas", 16)},
		Required: []string{"scale.noop", "scale.change", "scale.deleted", "shards.end", "replicas.end"},
		Prefixes: []string{"C18."},
		Bounds:   "ChangeScale with current and requested replica counts symbolic in [0,6] (incl. Spec.Replicas == nil), T <= 2 volume claim templates, symbolic deletion flag, Get / Update / Delete failures, IsNotFound arbitrary; Shards() with <= 3 pods in every list order and readiness pattern, and with 12 ready pods in ordinal, reverse and name order; Replicas() with 2 StatefulSets with symbolic status counters in [0,8]",
		Assume:   []string{"client-go is replaced by fakes that record Get / Update / Delete / List calls (the server side of the API is not modelled)", "fmt.Sprintf of a symbolic ordinal is concretised by forking over [0,16]", "logging is a no-op"},
		Outside:  []string{"replica counts above 6, more than 2 claim templates or 3 pods", "label-selector plumbing inside client-go", "the 2-minute not-ready grace period against real time (only its logic against the symbolic clock)"},
	}
	t["C03"] = PropSpec{
		ID: "C03", Pkg: coordPkg, LoadPkgs: []string{"tkestack.io/kvass/pkg/sidecar"}, NativeDir: "coordinator",
		Quick:    append([]HarnessRun{H("VAssign", 6, 2, 2), H("VCycle", 12, 1, 1, 0), H("VCycle", 6, 2, 0, 0), {Entry: "VUpdateTarget", Pkg: "tkestack.io/kvass/pkg/shard", Args: []int{2}, Cosim: 4}, L("VLoop", 8, 2, 1, 5, 0)}, lemmas...),
		Thorough: append([]HarnessRun{H("VAssign", 6, 3, 2), L("VLoop", 8, 3, 1, 6, 0), {Entry: "VLoop", Args: []int{2, 2, 6, 16}, Subst: swr, Unwind: 40, Cosim: 0, MergeAt: []string{coordPkg + ".vLoopCycle"}}, {Entry: "VUpdateTarget", Pkg: "tkestack.io/kvass/pkg/shard", Args: []int{3}, Cosim: 4}}, lemmas...),
		Required: []string{"c03.placed", "c03.allinsync", "c03.stability.checked", "assign.placed", "shard.update.keys.same", "loop.ran", "loop.end", "loop.overloaded"},
		Prefixes: []string{"C03.", "C01.shard.update.", "C01.c.loop."},
		Bounds:   "multi-cycle layer: closed loop of the real coordinator with S=2 (thorough 3) real sidecar bookkeepers (TargetsManager + runtimeInfo over the abstract store), K=1 target of concrete size, limits 1000 / 500-or-none, max-idle-time 0 or 1h, every initial placement (absent / normal / in_transfer per shard, scraped or not, shard 0 overloaded or not), 3 scrapes per assigned target and 2 h between cycles: converged within H=5 (6) cycles and one further cycle changes nothing; thorough adds one K=2 scenario (two targets spread over two shards, every scrape / limit / idle-time variant, 6 cycles, equal states merged at cycle boundaries); single-cycle layer: scale-up clause, at-most-once / normal-state placement, placement-when-room (K=1) and the no-op-from-a-converged-state clause on whole cycles at (S,K) = (1,1), (2,0); assignNoScrapingTargets lemma with S<=2 (thorough 3), K<=2",
		Assume:   wfAssumptions,
		Outside:  append([]string{"closed loops with more than one target (K>=2 explodes: >10^5 iteration orders per cycle) or with symbolic sizes: the multi-cycle layer uses K=1 and concrete sizes, the capacity questions are decided only per cycle", "later growth of series and targets added or removed during the run", "single-cycle stability is asserted for max-idle-time = 0 only"}, cycleOutside...),
	}
	t["C06"] = PropSpec{
		ID: "C06", Pkg: coordPkg, LoadPkgs: []string{"tkestack.io/kvass/pkg/sidecar"}, NativeDir: "coordinator",
		Quick:    []HarnessRun{H("VCycle", 12, 1, 1, 0), H("VCycle", 8, 2, 1, 40), {Entry: "VUpdateTarget", Pkg: "tkestack.io/kvass/pkg/shard", Args: []int{2}, Cosim: 4}, L("VLoop", 8, 2, 1, 6, 1), H("VGC", 4, 2, 2), H("VGC", 4, 3, 1)},
		Thorough: []HarnessRun{{Entry: "VUpdateTarget", Pkg: "tkestack.io/kvass/pkg/shard", Args: []int{3}, Cosim: 4}, L("VLoop", 8, 3, 1, 7, 1), L("VLoop", 4, 2, 1, 7, 2), {Entry: "VLoop", Args: []int{3, 1, 8, 2}, Subst: swr, Unwind: 40, Cosim: 4, Timeout: 30 * time.Minute}},
		Required: []string{"c06.lone", "c06.duplicate", "shard.update.keys.same", "loop.fault", "loop.end"},
		Prefixes: []string{"C06.", "C01.shard.update.", "C03.loop.", "C01.c.loop."},
		Bounds:   "multi-cycle layer: the closed loop of C03 (S=2, thorough 3; K=1) with one fault at cycle 0 or 1 on any shard - a lost target POST, a shard not ready for one cycle, a sidecar restarted from its store - followed by fault-free cycles: converged within H=6 (7) cycles; thorough also two faults (the second one or two cycles after the first, any shard, any kind) at S=2 within 7 cycles and at S=3 within 8 cycles (405 260 paths); gcTargets progress lemma at (2,2), (3,1): a completed hand-over is collected and fully qualified same-state duplicates shrink wherever in the shard list the copies sit; single-cycle progress lemmas from the states faults leave behind (a lone in_transfer copy; two copies on in-sync shards in every state / load / counter combination) on whole cycles at (S,K) = (1,1) and (2,1) with all shards in sync and relief off",
		Assume:   wfAssumptions,
		Outside:  append([]string{"more than two faults per run, a first fault later than cycle 1, K>=2 in the closed loop", "a shard removed by scaling as an injected fault (scale-down happens only as the coordinator's own decision in the idle-time variant)"}, cycleOutside...),
	}
	t["C19"] = PropSpec{
		ID: "C19", Pkg: coordPkg, NativeDir: "coordinator",
		Quick:    []HarnessRun{H("VTwoReplicas", 8, 1, 1, 16, 40), H("VTwoReplicasCycles", 4, 80)},
		Thorough: []HarnessRun{H("VTwoReplicasCycles", 4, 16)},
		Required: []string{"tworep.ran", "tworep.posted", "tworep.end", "tworep.cycles.second.posted", "tworep.cycles.end"},
		Prefixes: []string{"C19."},
		Bounds:   "self-composition of runOnce: a cycle over replicas [A, B] against a cycle over [B] alone with equal-valued reports and an equal explorer state, K = 1 target, B one in-sync shard, A one shard of any kind with concrete loads, or failing to list shards / to scale (early and final request); clock frozen so that both cycles see the same instant; across cycles: two consecutive cycles of one coordinator and one explorer over [A, B] against [A] alone, A one in-sync shard reporting no targets in either cycle (what it was sent is lost), B one in-sync shard scraping the same target, the explorer holding a healthy estimate with symbolic counts, concrete shard loads, relief and scale-down off (thorough: symbolic options) - what A is sent and A's scale requests must agree in both cycles",
		Assume:   append([]string{"the explorer hands out the same status object per hash within a cycle; the comparison cycle starts from an equal copy of the explorer's state before the cycle"}, wfAssumptions...),
		Outside:  append([]string{"K > 1 (B's outcome would depend on iteration order)", "influence across more than two cycles, or through B being processed before A (B's own report objects are private copies)"}, cycleOutside...),
	}
	explPkg := "tkestack.io/kvass/pkg/explore"
	t["C20"] = PropSpec{
		ID: "C20", Pkg: explPkg, LoadPkgs: []string{coordPkg}, NativeDir: "explore",
		Quick:    []HarnessRun{{Entry: "VExploreKernel", Args: []int{1}, Cosim: 6}, {Entry: "VExploreKernel", Args: []int{2}, Cosim: 6}, {Entry: "VCycleExplore", Pkg: coordPkg, Subst: swr, Cosim: 2}, {Entry: "VExploreTable", Args: []int{2}, Cosim: 4}, {Entry: "VExploreRun", Args: []int{1, 1, 1, 2, 0}, Unwind: 40}, {Entry: "VExploreRun", Args: []int{2, 1, 1, 2, 0}, Unwind: 40}, {Entry: "VExploreRun", Args: []int{2, 1, 1, 2, 1}, Unwind: 40}},
		Thorough: []HarnessRun{{Entry: "VExploreRun", Args: []int{1, 1, 2, 3, 0}, Unwind: 60}, {Entry: "VExploreRun", Args: []int{2, 1, 2, 2, 0}, Unwind: 60}, {Entry: "VExploreRun", Args: []int{2, 2, 1, 2, 0}, Unwind: 60}, {Entry: "VExploreRun", Args: []int{2, 2, 1, 2, 1}, Unwind: 60}, {Entry: "VExploreRun", Args: []int{3, 1, 1, 2, 1}, Unwind: 60}, {Entry: "VExploreKernel", Args: []int{1}, Cosim: 8}, {Entry: "VExploreKernel", Args: []int{2}, Cosim: 8}, {Entry: "VCycleExplore", Pkg: coordPkg, Subst: swr, Cosim: 2}, {Entry: "VExploreTable", Args: []int{3}, Cosim: 4}},
		Required: []string{"explore.ok", "explore.failed", "explore.end", "explorecycle.ok", "explorecycle.failed", "explore.failed.partial", "run.retry", "run.act.update.same", "run.act.update.less", "run.act.reload.keep", "run.end"},
		Prefixes: []string{"C20."},
		Bounds:   "sequential kernel: Get / exploreOnce / UpdateTargets on a table of <= 2 targets with a scripted probe (success with symbolic counts < 2^30, failure without a result, failure with partial counts, unknown job); estimate through the real UpdateScrapeResult in floating-point theory; the first-assignment clause on the observable: two real coordination cycles (one in-sync shard with room, one target) around one scripted probe with the real Explore.Get as the coordinator's estimate source; bounded thread model: the real Explore.Run with W <= 1 probe workers (thorough 2), its retry goroutines and a driver goroutine (K <= 2 targets looked up, then one of: nothing, the same targets discovered again, target 1 removed, a reload keeping the job) under every schedule with context switches at synchronisation operations and <= 2 preemptions (quick K=2: 1), at most F = 1 failing probes (thorough 2), a probe that yields in the middle, time.Sleep advancing a symbolic clock by at least its argument; checked at quiescence: every asked-for target still discovered has the estimate of its successful probe, no probe after success, one probe in flight per target, a retry not before the retry interval, queue drained, Run returns on cancel",
		Assume:   []string{"the probe function (Explore.explore) is a scripted closure; logging and metrics are no-ops; the needExplore channel is a bounded FIFO", "thread model: goroutines interleave only at mutex acquisitions, channel operations, select, errgroup.Wait, time.Sleep and goroutine exit - complete for data-race-free code (the accesses of exploreOnce to the entry it probes are outside targetsLock and are treated as atomic with the surrounding step); schedule decisions are forks of the symbolic executor, counterexamples are confirmed by concrete re-execution of the SSA under the recorded schedule (a native run cannot be steered through a schedule)"},
		Outside:  []string{"more than 2 preemptions, more than 2 workers / targets / failing probes, more than one concurrent driver action", "weak-memory effects and data races (the model is sequentially consistent at synchronisation granularity)", "real timing of the retry interval (the clock is symbolic)"},
	}
	discPkg := "tkestack.io/kvass/pkg/discovery"
	discSubst := map[string]string{
		discPkg + ".targetsFromGroup": discPkg + ".vTargetsFromGroup",
		"(*github.com/prometheus/prometheus/scrape.Target).Labels":           discPkg + ".vPromLabels",
		"(*github.com/prometheus/prometheus/scrape.Target).DiscoveredLabels": discPkg + ".vPromDiscovered",
	}
	t["C17"] = PropSpec{
		ID: "C17", Pkg: discPkg, LoadPkgs: []string{explPkg}, NativeDir: "discovery",
		Quick:    []HarnessRun{{Entry: "VDisc", Args: []int{1, 1}, Subst: discSubst, Cosim: 12}, {Entry: "VExploreTable", Pkg: explPkg, Args: []int{2}, Cosim: 8}, {Entry: "VDiscRun", Args: []int{0, 2}, Subst: discSubst, Unwind: 40}, {Entry: "VDiscRun", Args: []int{1, 1}, Subst: discSubst, Unwind: 40}, {Entry: "VDiscRun", Args: []int{2, 1}, Subst: discSubst, Unwind: 40}, {Entry: "VDiscBadGroup", Subst: discSubst, Cosim: 3}},
		Thorough: []HarnessRun{{Entry: "VDiscRun", Args: []int{0, 4}, Subst: discSubst, Unwind: 40}, {Entry: "VDiscRun", Args: []int{1, 3}, Subst: discSubst, Unwind: 40}, {Entry: "VDiscRun", Args: []int{2, 2}, Subst: discSubst, Unwind: 40}, {Entry: "VDisc", Args: []int{1, 1}, Subst: discSubst, Cosim: 16}, {Entry: "VExploreTable", Pkg: explPkg, Args: []int{3}, Cosim: 8}},
		Required: []string{"disc.update", "disc.reload", "disc.job.updated", "disc.job.untouched", "disc.reload.kept", "disc.reload.removed", "explore.update", "explore.reload", "explore.survivor", "discrun.end", "badgroup.end"},
		Prefixes: []string{"C17."},
		Bounds:   "sequential histories: configuration with 2 jobs, a first (full or partial) discovery round, then one step - an update mentioning any subset of a known and an unknown job, or a reload that keeps / removes each job and adds one, followed by an update for a removed and the added job; 1 group of <= 1 target per job and round, each target active or dropped; snapshot isolation of ActiveTargets / DropTargets / ActiveTargetsByHash across the step; a group that cannot be translated, first / in the middle / last among three, hides no other group; explorer table over <= 2 (3) hashes; bounded thread model: the real TargetsDiscovery.Run loop consuming one discovery round for a kept job from its channel, the driver reloading the configuration (removing or keeping the other job; or two rounds around the reload, quick with 1 preemption) and a reader goroutine taking two snapshots (ActiveTargets, ActiveTargetsByHash), under every schedule with context switches at synchronisation operations and <= 2 preemptions (thorough up to 4): the kept job is never missing from a snapshot, the latest update wins, the removed job is gone, subscribers are notified once, Run returns on cancel",
		Assume:   []string{"thread model: goroutines interleave only at mutex acquisitions, channel operations, select and goroutine exit - complete for data-race-free code; the unlocked read of m.config in translateTargets is treated as atomic with the step it belongs to; schedule decisions are forks of the symbolic executor, counterexamples are confirmed by concrete re-execution of the SSA under the recorded schedule", "targetsFromGroup is replaced by a summary returning one entry per discovered address (active unless labelled drop=1); scrape.Target label accessors are summarised accordingly (its own behaviour is C15 / C02 territory); natively the real functions run on groups built to give the same outcome", "sync.Mutex Lock/Unlock are tracked (a lock taken twice, or an unlock without lock, ends the path as an error); logging is a no-op"},
		Outside:  []string{"the data race itself between the unlocked read of the configuration map in translateTargets and ApplyConfig (the model switches threads at synchronisation operations only)", "more than 3 preemptions, more than one concurrent update and one reload, more than one reader", "more than one step after the first round in the sequential harness; more than 2 jobs"},
	}
	hashSubst := map[string]string{"github.com/prometheus/prometheus/model/relabel.Process": discPkg + ".vNoRelabel"}
	t["C15"] = PropSpec{
		ID: "C15", Pkg: discPkg, NativeDir: "discovery",
		Quick:    []HarnessRun{{Entry: "VHash", Args: []int{0}, Subst: hashSubst, Unwind: 40, Cosim: 2}, {Entry: "VHash", Args: []int{2}, Subst: hashSubst, Unwind: 40, Cosim: 2}, {Entry: "VHashDedupe", Subst: hashSubst, Unwind: 40, Cosim: 2}},
		Thorough: []HarnessRun{{Entry: "VHash", Args: []int{0}, Subst: hashSubst, Unwind: 40, Cosim: 4}, {Entry: "VHash", Args: []int{1}, Subst: hashSubst, Unwind: 40, Cosim: 2}, {Entry: "VHash", Args: []int{2}, Subst: hashSubst, Unwind: 40, Cosim: 3}, {Entry: "VHashDedupe", Subst: hashSubst, Unwind: 40, Cosim: 4}},
		Required: []string{"hash.two.runs", "hash.sensitive", "hash.sensitive.query", "hash.sensitive.boundary", "dedupe.same", "dedupe.two", "hash.end"},
		Prefixes: []string{"C15."},
		Bounds:   "targetsFromGroup / populateLabels / targetHash / labelsWithoutConfigParam / supportInvalidLabelName (and labels.New, labels.Builder, sort.Sort, scrape.NewTarget / Target.URL from source) on a group of 1 target (dedupe: 2 targets) with the labels __address__ (concrete, with and without port), foo and an invalid name \"bad-name\" with symbolic values, an optional __meta_ label with a symbolic value, every split of the labels between group and target and every map-iteration order; no relabel rules; sensitivity: two targets differing only in the (symbolic, different) value of one surviving label - ordinary (foo) or reserved but neither __meta_ nor URL-forming (__tmp_x, __scrape_interval__) - can get different hashes (satisfiability query with the hash functions uninterpreted: holds exactly when the label value reaches the hash input), and two jobs whose params differ only in the second value of a multi-valued parameter (carried by no label: the URL query must reach the hash)",
		Assume:   []string{"xxhash (labels.Labels.Hash) and FNV-64a are uninterpreted functions of exactly what is fed to them (label names and values in order; the formatted label hash; the URL string): equal inputs give equal hashes, nothing is assumed about different inputs", "relabel.Process is the identity (the job has no relabel rules); net.SplitHostPort, CheckTargetAddress and the label-name / label-value validity tests run on concrete strings", "symbolic label values range over non-empty valid UTF-8 strings"},
		Outside:  []string{"'targets that differ in any label or URL component get different hashes' as such is collision-freeness of xxhash/FNV and is not a bounded solver query; what is decided is that every surviving label reaches the hash input (sensitivity clause)", "stability across processes and restarts beyond independence of iteration order, addresses and time (any such dependence would be an un-stubbed call and abort the path)", "relabel programs (C02)"},
	}
	// the thorough tier of a property is its deeper configurations followed by everything the quick
	// tier runs (a configuration listed in both keeps the thorough settings)
	for id, sp := range t {
		seen := map[string]bool{}
		var out []HarnessRun
		for _, r := range append(append([]HarnessRun{}, sp.Thorough...), sp.Quick...) {
			k := r.Pkg + "." + r.Entry + fmt.Sprint(r.Args)
			if !seen[k] {
				seen[k] = true
				out = append(out, r)
			}
		}
		sp.Thorough = out
		t[id] = sp
	}
	return t
}
