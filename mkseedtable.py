#!/usr/bin/env python3
"""Builds the seeded-change / mutant detection tables for DESIGN.md from the result files and
fills 'detected_by' in each seed's meta.json."""
import json, os, re
def det(path):
    if not os.path.exists(path): return []
    out=[]
    for l in open(path):
        l=l.strip()
        m=re.match(r'(C\d+) quick exit=(\d+) ?(.*)', l)
        if m:
            labs=sorted(set(re.findall(r'((?:sym:)?C\d+\.[\w.]+) \(([^)]*)\)', m.group(3))))
            out.append((m.group(1), int(m.group(2)), labs))
    return out
rows=[]
for name in sorted(n for n in os.listdir('/verif/seeded') if os.path.isdir('/verif/seeded/'+n)):
    d='/verif/seeded/'+name
    meta=json.load(open(d+'/meta.json'))
    ds=det(d+'/detection.txt')
    caught=[f"{p} ({'; '.join(sorted(set(l for l,_ in labs))[:2])})" for p,rc,labs in ds if rc==1]
    missed=[p for p,rc,labs in ds if rc==0]
    incon=[p for p,rc,labs in ds if rc==2]
    meta['detected_by']={'violation_reported_by':[p for p,rc,_ in ds if rc==1],'not_reported_by':missed,'inconclusive':incon,'detail':[f"{p} quick exit={rc} {sorted(set(l for l,_ in labs))[:3]}" for p,rc,labs in ds]}
    json.dump(meta,open(d+'/meta.json','w'),indent=1)
    note=meta.get('status_on_final_tree','')
    rows.append(f"| {name} | {meta['breaks_property']} | {meta['change']} | {', '.join(caught) or '-'} | {', '.join(missed+[i+' (INCONCLUSIVE, exit 2)' for i in incon]) or '-'}{' ; '+note[:60]+'…' if note else ''} |")
print("| seed | breaks | change | VIOLATION reported by (assertion) | run but silent |\n|---|---|---|---|---|")
print("\n".join(rows))
print()
rows=[]
if os.path.isdir('/verif/mutants'):
    for name in sorted(os.listdir('/verif/mutants')):
        d='/verif/mutants/'+name
        p=d+'/detection.txt'
        if not os.path.exists(p): continue
        base=open(p).readline().strip()
        ds=det(p)
        caught=[f"{p} ({'; '.join(sorted(set(l for l,_ in labs))[:1])})" for p,rc,labs in ds if rc==1]
        other=[f"{p} exit={rc}" for p,rc,labs in ds if rc!=1]
        rows.append(f"| {name} | {base.replace('baseline: ','')} | {', '.join(caught) or '-'} | {', '.join(other) or '-'} |")
    print("| mutant | existing tests | VIOLATION reported by | other |\n|---|---|---|---|")
    print("\n".join(rows))
