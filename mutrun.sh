#!/bin/bash
# usage: mutrun.sh [mutant ...]   like seedrun.sh for my own catalogue under /verif/mutants:
# applies the patch to /repo, records whether the 92 baseline tests still pass, runs the checks in
# checks.txt (quick tier), undoes the patch. Results: /verif/mutants/<name>/detection.txt
cd /verif
ms="$@"; [ -z "$ms" ] && ms=$(ls mutants)
for s in $ms; do
  d=/verif/mutants/$s
  git -C /repo checkout -q -- .
  git -C /repo apply $d/patch.diff || { echo "$s: patch does not apply" | tee $d/detection.txt; continue; }
  b=$(python3 /verif/baseline_check.py /repo | head -1)
  echo "baseline: $b" > $d/detection.txt
  for p in $(cat $d/checks.txt); do
    VERIF_EVIDENCE_DIR=/tmp/out/seedev ./check $p quick > /tmp/out/seedev.$s.$p.log 2>&1; rc=$?
    lab=$(grep -m2 "^  assertion" /tmp/out/seedev.$s.$p.log | sed 's/^  assertion \([^ ]*\) fails in \([^;]*\);.*/\1 (\2)/' | tr '\n' ';')
    echo "$p quick exit=$rc $lab" >> $d/detection.txt
  done
  git -C /repo checkout -q -- .
  echo "== $s"; cat $d/detection.txt
done
echo MUTRUNDONE
