//go:build verif

package sidecar

var vEntries = map[string]interface{}{
	"VTMStep":     VTMStep,
	"VTMRestart":  VTMRestart,
	"VStoreCrash": VStoreCrash,
	"VProxy":      VProxy,
}
