//go:build verif

package sidecar

import (
	"io"
	"net/http"
	"net/url"
	"time"

	parser "github.com/VictoriaMetrics/VictoriaMetrics/lib/protoparser/prometheus"
	"github.com/klauspost/compress/gzip"
	"github.com/prometheus/common/model"
	"github.com/prometheus/prometheus/config"
	"github.com/prometheus/client_golang/prometheus"
	pscrape "github.com/prometheus/prometheus/scrape"

	"tkestack.io/kvass/pkg/prom"
	"tkestack.io/kvass/pkg/scrape"
	"tkestack.io/kvass/pkg/target"
	"tkestack.io/kvass/pkg/zzv"
)

// ---- scripted target behind JobInfo.Cli ----

// vPayload is the exposition text the scripted target serves (5 samples, one comment, one blank
// line); the split into read chunks, the point of failure and the kind of failure are symbolic.
const vPayload = "# HELP a x\na 1\nb{l=\"v\"} 2\n\nb{l=\"w\"} 3\nc 4\nd 5\n"
const vPayloadSamples = 5

type vBody struct {
	data    string
	cuts    []int // chunk boundaries (ascending offsets); the rest is delivered in one last chunk
	failOff int   // the read after this many delivered bytes fails (-1: never)
	reset   bool  // the failure is "connection reset by peer" (otherwise a time-out)
	eofWith bool  // the last chunk is returned together with io.EOF
	off     int
	closed  bool
	failed  bool // a Read returned the connection error
	sawEOF  bool // a Read returned io.EOF
}

var vErrReset = zzv.Err("read tcp 10.0.0.1:1->10.0.0.2:2: read: connection reset by peer")
var vErrTimeout = zzv.Err("context deadline exceeded (Client.Timeout or context cancellation while reading body)")

func (b *vBody) Read(p []byte) (int, error) {
	if b.failOff >= 0 && b.off >= b.failOff {
		b.failed = true
		if b.reset {
			return 0, vErrReset
		}
		return 0, vErrTimeout
	}
	if b.off >= len(b.data) {
		b.sawEOF = true
		return 0, io.EOF
	}
	end := len(b.data)
	for _, c := range b.cuts {
		if c > b.off && c < end {
			end = c
		}
	}
	if b.failOff > b.off && b.failOff < end {
		end = b.failOff
	}
	if end-b.off > len(p) {
		end = b.off + len(p)
	}
	n := copy(p, b.data[b.off:end])
	b.off += n
	if b.off >= len(b.data) && b.eofWith && b.failOff < 0 {
		b.sawEOF = true
		return n, io.EOF
	}
	return n, nil
}

func (b *vBody) Close() error { b.closed = true; return nil }

// vTarget scripts what the real target does.
type vTarget struct {
	doFails   bool
	status    int
	ctype     string
	gzipped   bool
	gzipFails bool
	gzipReleased bool // the pooled decompressor was handed back (PutGzipReader)
	body      *vBody
	requests  int
	lastURL   string
}

var vCur *vTarget

func (t *vTarget) response(req *http.Request) (*http.Response, error) {
	t.requests++
	if req != nil && req.URL != nil {
		t.lastURL = req.URL.String()
	}
	if t.doFails {
		return nil, zzv.Err("dial tcp: connection refused")
	}
	h := http.Header{}
	h.Set("Content-Type", t.ctype)
	if t.gzipped {
		h.Set("Content-Encoding", "gzip")
	}
	return &http.Response{StatusCode: t.status, Status: "status", Header: h, Body: t.body}, nil
}

// RoundTrip makes vTarget the transport of a real http.Client in the native build.
func (t *vTarget) RoundTrip(req *http.Request) (*http.Response, error) { return t.response(req) }

// vClientDo replaces (*http.Client).Do under the symbolic executor.
func vClientDo(c *http.Client, req *http.Request) (*http.Response, error) { return vCur.response(req) }

// gzip: under the symbolic executor the decompressor is an opaque reader whose output is the
// payload (the scripted chunk schedule is then the schedule of decompressed bytes).
func vGetGzipReader(r io.Reader) (*gzip.Reader, error) {
	if vCur.gzipFails {
		return nil, zzv.Err("gzip: invalid header")
	}
	return &gzip.Reader{}, nil
}
func vPutGzipReader(z *gzip.Reader) {
	// a reader handed back twice sits in the pool twice and is given to two scrapes at once
	zzv.AssertSym("C12.pooled.gzip.reader.released.once", !vCur.gzipReleased)
	vCur.gzipReleased = true
}
func vGzipRead(z *gzip.Reader, p []byte) (int, error) {
	// the decompressor comes from a pool shared by all scrapes: once it is handed back another
	// scrape may own it, so no byte of this response may be read through it any more (a lemma
	// standing in for overlapping scrapes, which are not explored)
	zzv.AssertSym("C12.pooled.gzip.reader.not.used.after.release", !vCur.gzipReleased)
	return vCur.body.Read(p)
}

// vParseStream is the contract model of VictoriaMetrics' ParseStream (v1.71.0): read until the
// reader reports an error; an EOF-like error = success and the callback gets the rows of
// everything read; any other error is returned. "EOF-like" is io.EOF or, as in the library's
// isEOFLikeError, any error whose text contains "reset by peer".
func vParseStream(r io.Reader, defaultTimestamp int64, isGzipped bool, callback func(rows []parser.Row) error, errLogger func(string)) error {
	var all []byte // every byte accepted so far
	tailLen := 0   // bytes after the last newline (the library keeps them for the next block)
	var held error // error held back by the library's buffered reader
	buf := make([]byte, 64)
	for i := 0; i < 64; i++ {
		var n int
		var err error
		switch {
		case held != nil:
			n, err, held = 0, held, nil
		case tailLen == 0:
			// block buffer empty: bufio reads straight into it and the error comes with the data;
			// ReadLinesBlock looks at the error only when no bytes were read
			n, err = r.Read(buf)
			if n > 0 {
				err = nil
			}
		default:
			// a partial line is pending: bufio buffers the data and reports the error on the next call
			n, err = r.Read(buf)
			if n > 0 {
				held, err = err, nil
			}
		}
		all = append(all, buf[:n]...)
		tailLen = 0
		for k := len(all) - 1; k >= 0 && all[k] != '\n'; k-- {
			tailLen++
		}
		if n > 0 {
			continue
		}
		if err == io.EOF || (err != nil && vContains(err.Error(), "reset by peer")) {
			return callback(vRows(string(all)))
		}
		if err != nil {
			return err
		}
	}
	return zzv.Err("reader never ended")
}

func vContains(s, sub string) bool {
	for i := 0; i+len(sub) <= len(s); i++ {
		if s[i:i+len(sub)] == sub {
			return true
		}
	}
	return false
}

func vRows(text string) []parser.Row {
	var rows []parser.Row
	start := 0
	for i := 0; i <= len(text); i++ {
		if i < len(text) && text[i] != '\n' {
			continue
		}
		line := text[start:i]
		start = i + 1
		if len(line) == 0 || line[0] == '#' {
			continue
		}
		end := len(line)
		for j := 0; j < len(line); j++ {
			if line[j] == '{' || line[j] == ' ' {
				end = j
				break
			}
		}
		rows = append(rows, parser.Row{Metric: line[:end]})
	}
	return rows
}

// ---- scripted Prometheus side ----

type vWriter struct {
	header      http.Header
	status      int // committed status (0: nothing sent yet)
	body        []byte
	ctypeAtSend string
	failAfter   int // Prometheus' connection breaks after accepting this many body bytes (-1: never)
	broken      bool
	nWrites     int
	shortWrites int
	lateHeader  int // WriteHeader calls after the response was committed (ignored by net/http)
}

func (w *vWriter) Header() http.Header { return w.header }
func (w *vWriter) WriteHeader(code int) {
	if w.status != 0 {
		w.lateHeader++
		return
	}
	w.status = code
	w.ctypeAtSend = w.header.Get("Content-Type")
}
func (w *vWriter) Write(p []byte) (int, error) {
	w.nWrites++
	if w.status == 0 {
		w.WriteHeader(http.StatusOK)
	}
	if w.failAfter >= 0 && len(w.body)+len(p) > w.failAfter {
		n := w.failAfter - len(w.body)
		w.body = append(w.body, p[:n]...)
		w.broken = true
		return n, zzv.Err("write: broken pipe")
	}
	n := len(p)
	if w.shortWrites > 0 && n > 1 {
		n = n / 2
		w.shortWrites--
	}
	w.body = append(w.body, p[:n]...)
	return n, nil
}

// VProxy: one request through the real Proxy.ServeHTTP against the scripted target.
// mode: 0 identity encoding, 1 gzip.
func VProxy(mode int) {
	// request routing: 0 known job and parsable hash, 1 unknown job, 2 unparsable hash
	route := zzv.Choose("route", 3)
	assigned := zzv.Choose("assigned", 2) == 1
	tg := &vTarget{status: 200, ctype: "text/plain; version=0.0.4", gzipped: mode == 1}
	body := &vBody{data: vPayload, failOff: -1}
	w := &vWriter{header: http.Header{}, failAfter: -1}
	stop := ""
	if route == 0 {
		tg.ctype = zzv.Str("ctype", "text/plain; version=0.0.4", "application/openmetrics-text")
		if zzv.Choose("stopped", 2) == 1 {
			stop = "stopped by admin"
		}
		// stage at which the target fails before any body byte: 0 none, 1 connection, 2 status, 3 gzip header
		nStage := 3
		if tg.gzipped {
			nStage = 4
		}
		switch zzv.Choose("stage", nStage) {
		case 1:
			tg.doFails = true
		case 2:
			// any status other than 200 is a failed scrape (as for Prometheus itself)
			tg.status = zzv.Int("status")
			zzv.Assume(100 <= tg.status && tg.status <= 599 && tg.status != 200)
		case 3:
			tg.gzipFails = true
		default:
			n := len(vPayload)
			c1 := zzv.Choose("cut1", 3) * 13 // 0 (no cut), 13, 26
			c2 := c1 + zzv.Choose("cut2", 2)*9
			if c1 > 0 && c1 < n {
				body.cuts = append(body.cuts, c1)
			}
			if c2 > c1 && c2 < n {
				body.cuts = append(body.cuts, c2)
			}
			// the body breaks off after 0, 13, 30 or all 51 bytes (then instead of EOF), or never
			switch zzv.Choose("failOff", 5) {
			case 1:
				body.failOff = 0
			case 2:
				body.failOff = 13
			case 3:
				body.failOff = 30
			case 4:
				body.failOff = n
			}
			if body.failOff >= 0 {
				body.reset = zzv.Choose("fail.reset", 2) == 1
			}
			body.eofWith = zzv.Choose("eofWith", 2) == 1
			if zzv.Choose("emptybody", 2) == 1 {
				body.data = ""
			}
			switch zzv.Choose("prom", 4) {
			case 1:
				w.failAfter = 0
			case 2:
				w.failAfter = 20
			case 3:
				w.shortWrites = 2
			}
		}
	}
	tg.body = body
	vCur = tg

	timeoutNs := int64(10 * time.Second)
	job := &scrape.JobInfo{
		Config: &config.ScrapeConfig{JobName: "job1", ScrapeTimeout: model.Duration(timeoutNs)},
		Cli:    &http.Client{Transport: tg},
	}
	status := map[uint64]*target.ScrapeStatus{}
	var st *target.ScrapeStatus
	var st0 target.ScrapeStatus
	if assigned {
		st = target.NewScrapeStatus(zzv.Int64("st.series"), zzv.Int64("st.total"))
		st.ScrapeTimes = zzv.Uint64("st.scrapes")
		zzv.Assume(st.ScrapeTimes < 1<<32)
		st.Health = pscrape.TargetHealth(zzv.Str("st.health", "up", "down", "unknown"))
		st.LastError = zzv.Str("st.lasterr", "", "old error")
		st0 = *st
		status[1] = st
	}
	cfg := &prom.ConfigInfo{ExtraConfig: &prom.ExtraConfig{StopScrapeReason: stop}}
	jobKnown := route != 1
	p := NewProxy(func(name string) *scrape.JobInfo {
		if jobKnown && name == "job1" {
			return job
		}
		return nil
	}, func() map[uint64]*target.ScrapeStatus { return status }, func() *prom.ConfigInfo { return cfg }, vRegistry(), vLogger())

	hash := "1"
	if route == 2 {
		hash = "x1"
	}
	u, _ := url.Parse("http://127.0.0.1:9/metrics?_jobName=job1&_hash=" + hash + "&_scheme=http&foo=bar")
	req := &http.Request{Method: "GET", URL: u, Header: http.Header{}}

	crashed := zzv.Crashed(func() { p.ServeHTTP(w, req) })

	// classification of the real scrape from what the scripted target and writer observed
	attempted := jobKnown && hash == "1"
	// the real scrape is successful iff the target delivered its whole body; a broken connection to
	// Prometheus does not make the target unhealthy (and the parser does not even notice it)
	realOK := attempted && !tg.doFails && tg.status == 200 && !(tg.gzipped && tg.gzipFails) && !body.failed && body.sawEOF && stop == ""
	aborted := crashed || w.broken
	// a handler that returns normally has produced a complete response: the committed status,
	// or an implicit 200 if it never wrote anything
	complete200 := !aborted && (w.status == 200 || w.status == 0)
	if attempted && stop != "" {
		zzv.Cover("proxy.stopped")
	}
	if attempted {
		zzv.Cover("proxy.attempted")
		if !realOK {
			zzv.Cover("proxy.failed")
			// F1: a failure after the first forwarded byte leaves Prometheus with a complete 200
			zzv.Finding("C13-F1", w.status == 200 && len(w.body) > 0 && stop == "")
			// F2: the parser library treats "connection reset by peer" as a clean end of stream
			zzv.Finding("C13-F2", body.failed && body.reset)
			zzv.Assert("C13.failed.not200", !complete200)
			if st != nil {
				zzv.Finding("C13-F2", body.failed && body.reset)
				zzv.Assert("C13.failed.health", st.Health == pscrape.HealthBad && st.LastError != "")
				if stop == "" && !(body.failed && body.reset) {
					// (an administratively stopped scrape still reads the target; whether its counts
					// enter the window is not fixed by the property, so it is not asserted)
					zzv.Assert("C14.failed.keeps.series", st.Series == st0.Series && st.TotalSeries == st0.TotalSeries)
				}
			}
		} else {
			zzv.Cover("proxy.ok")
			if !w.broken {
				zzv.Assert("C12.ok.status", complete200)
				zzv.Assert("C12.ok.bytes", string(w.body) == body.data)
			} else {
				zzv.Cover("proxy.ok.prombroken")
				// what Prometheus accepted before its connection broke is a prefix of the body
				zzv.Assert("C12.broken.prefix", len(w.body) <= len(body.data) && string(w.body) == body.data[:len(w.body)])
			}
			zzv.Assert("C12.ok.ctype", w.header.Get("Content-Type") == tg.ctype && (w.status == 0 || w.ctypeAtSend == tg.ctype))
			// (when Prometheus' own connection broke, the parser may or may not notice the write error -
			// it depends on whether a partial line was pending - so the recorded health is not asserted)
			if st != nil && !w.broken {
				zzv.Assert("C13.ok.health", st.Health == pscrape.HealthGood && st.LastError == "")
				if body.data != "" {
					zzv.Assert("C14.ok.total", st.TotalSeries == vPayloadSamples)
					zzv.Assert("C14.ok.stats", st.LastScrapeStatistics != nil && st.LastScrapeStatistics.Total == vPayloadSamples && st.LastScrapeStatistics.ScrapedTotal == vPayloadSamples)
				}
			}
		}
		if st != nil {
			zzv.Assert("C13.counter.once", st.ScrapeTimes == st0.ScrapeTimes+1)
		}
		zzv.Assert("C12.one.request", tg.requests == 1)
	} else {
		zzv.Cover("proxy.notattempted")
		zzv.Assert("C13.notattempted.400", w.status == http.StatusBadRequest && tg.requests == 0)
		if st != nil {
			zzv.Assert("C13.counter.untouched", st.ScrapeTimes == st0.ScrapeTimes)
		}
	}
	zzv.Observe("proxy", attempted, realOK, w.status, len(w.body), crashed, tg.requests)
	if st != nil {
		zzv.Observe("status", string(st.Health), st.ScrapeTimes-st0.ScrapeTimes)
	}
	zzv.Cover("proxy.end")
}

func vRegistry() *prometheus.Registry { return prometheus.NewRegistry() }
