//go:build verif

package sidecar

import (
	"time"

	"github.com/prometheus/client_golang/prometheus"

	"tkestack.io/kvass/pkg/shard"
	"tkestack.io/kvass/pkg/target"
)

// Shims for the closed-loop harness in pkg/coordinator: a sidecar's bookkeeping without its HTTP
// layer. VSidecar is the real TargetsManager plus the real Service.runtimeInfo.

type VSidecar struct {
	TM   *TargetsManager
	svc  *Service
	Head int64
}

// VNewSidecar starts a sidecar on store directory dir (Load included).
func VNewSidecar(dir string) *VSidecar {
	tm := NewTargetsManager(dir, prometheus.NewRegistry(), vLogger())
	s := &VSidecar{TM: tm}
	s.svc = &Service{targetManager: tm, cfgManager: vCfgManager(), getHeadSeries: func() (int64, error) { return s.Head, nil }}
	_ = tm.Load()
	return s
}

// VSetNow sets the sidecar package's clock.
func VSetNow(t time.Time) { timeNow = func() time.Time { return t } }

// Status is what GET /api/v1/shard/targets/status/ serves.
func (s *VSidecar) Status() map[uint64]*target.ScrapeStatus { return s.TM.TargetsInfo().Status }

// Runtime is what GET /api/v1/shard/runtimeinfo/ serves (ConfigHash filled in by the caller).
func (s *VSidecar) Runtime() *shard.RuntimeInfo {
	res := s.svc.runtimeInfo(nil)
	rt, _ := res.Data.(*shard.RuntimeInfo)
	return rt
}

// Update is POST /api/v1/shard/targets/.
func (s *VSidecar) Update(req *shard.UpdateTargetsRequest) error { return s.TM.UpdateTargets(req) }
