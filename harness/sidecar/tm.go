//go:build verif

package sidecar

import (
	"encoding/json"
	"io/ioutil"
	"path"
	"time"

	"github.com/prometheus/client_golang/prometheus"
	"github.com/prometheus/prometheus/scrape"
	"github.com/sirupsen/logrus"

	"tkestack.io/kvass/pkg/prom"
	"tkestack.io/kvass/pkg/shard"
	"tkestack.io/kvass/pkg/target"
	"tkestack.io/kvass/pkg/zzv"
)

const vMaxSeries = int64(1) << 40

func vLogger() logrus.FieldLogger { return logrus.New() }

var vJobs = []string{"job1", "job2"}

// vAllJobs: harness loops iterate over this fixed list instead of ranging over maps, so that the
// harness itself does not fork on map-iteration order (the code under analysis still does).
var vAllJobs = []string{"job1", "job2", "job-empty"}

type vPre struct {
	obj    *target.ScrapeStatus // the status object itself (identity must be kept across updates)
	snap   target.ScrapeStatus  // its content before the step
	state  string
	job    int
	series int64
	total  int64
}

// vArbitraryManager builds a TargetsManager in an arbitrary state satisfying the representation
// invariant INV over hashes 1..K: status keys = hashes of Targets, per-hash state equal to the
// target's, IdleAt != nil iff there is no status entry, entries non-nil.
func vArbitraryManager(K int, dir string, now func() time.Time) (*TargetsManager, map[uint64]*vPre, *time.Time) {
	tm := NewTargetsManager(dir, prometheus.NewRegistry(), vLogger())
	pre := map[uint64]*vPre{}
	for h := 1; h <= K; h++ {
		p := "pre.h" + zzv.Itoa(h)
		if zzv.Choose(p+".has", 2) == 0 {
			continue
		}
		job := zzv.Choose(p+".job", 2)
		st := &target.ScrapeStatus{
			Series:      zzv.Int64(p + ".series"),
			TotalSeries: zzv.Int64(p + ".total"),
			TargetState: zzv.Str(p+".state", target.StateNormal, target.StateInTransfer),
			Health:      scrape.TargetHealth(zzv.Str(p+".health", string(scrape.HealthGood), string(scrape.HealthBad), string(scrape.HealthUnknown))),
			ScrapeTimes: zzv.Uint64(p + ".scrapes"),
			LastError:   zzv.Str(p+".lasterr", "", "boom"),
		}
		zzv.Assume(0 <= st.Series && st.Series <= vMaxSeries)
		zzv.Assume(0 <= st.TotalSeries && st.TotalSeries <= vMaxSeries)
		zzv.Assume(st.ScrapeTimes <= 1<<16)
		tar := &target.Target{Hash: uint64(h), Series: zzv.Int64(p + ".tseries"), TotalSeries: zzv.Int64(p + ".ttotal"), TargetState: st.TargetState}
		tm.targets.Targets[vJobs[job]] = append(tm.targets.Targets[vJobs[job]], tar)
		tm.targets.Status[uint64(h)] = st
		pre[uint64(h)] = &vPre{obj: st, snap: *st, state: st.TargetState, job: job}
	}
	var idle *time.Time
	if len(pre) == 0 {
		t := zzv.Time("pre.idleAt")
		idle = &t
		tm.targets.IdleAt = idle
	}
	return tm, pre, idle
}

type vReq struct {
	state  string
	job    int
	series int64
	total  int64
}

// vRequest builds an arbitrary update request over hashes 1..K (each hash in at most one job).
func vRequest(K int, name string) (*shard.UpdateTargetsRequest, map[uint64]*vReq) {
	req := &shard.UpdateTargetsRequest{Targets: map[string][]*target.Target{}}
	want := map[uint64]*vReq{}
	for h := 1; h <= K; h++ {
		p := name + ".h" + zzv.Itoa(h)
		if zzv.Choose(p+".has", 2) == 0 {
			continue
		}
		r := &vReq{
			state:  zzv.Str(p+".state", target.StateNormal, target.StateInTransfer),
			job:    zzv.Choose(p+".job", 2),
			series: zzv.Int64(p + ".series"),
			total:  zzv.Int64(p + ".total"),
		}
		zzv.Assume(0 <= r.series && r.series <= vMaxSeries)
		zzv.Assume(0 <= r.total && r.total <= vMaxSeries)
		req.Targets[vJobs[r.job]] = append(req.Targets[vJobs[r.job]], &target.Target{Hash: uint64(h), Series: r.series, TotalSeries: r.total, TargetState: r.state})
		want[uint64(h)] = r
	}
	if zzv.Choose(name+".emptyjob", 2) == 1 {
		req.Targets["job-empty"] = []*target.Target{}
	}
	return req, want
}

func vCfgManager() *prom.ConfigManager { return prom.NewConfigManager() }

func vService(tm *TargetsManager, head int64, headErr bool) *Service {
	return &Service{
		targetManager: tm,
		cfgManager:    prom.NewConfigManager(),
		getHeadSeries: func() (int64, error) {
			if headErr {
				return 0, zzv.Err("prometheus unreachable")
			}
			return head, nil
		},
	}
}

// VTMStep: one inductive step of the sidecar bookkeeping from an arbitrary INV state (C10), plus
// the load report (C10 / C14 sums).
func VTMStep(K int) {
	dir := zzv.TempDir()
	now := zzv.Time("now")
	timeNow = func() time.Time { return now }
	tm, pre, idle0 := vArbitraryManager(K, dir, timeNow)
	cbFail := zzv.Bool("callback.fails")
	cbCalls := 0
	tm.AddUpdateCallbacks(func(map[string][]*target.Target) error {
		cbCalls++
		if cbFail {
			return zzv.Err("callback failed")
		}
		return nil
	})
	req, want := vRequest(K, "req")
	var err error
	crashed := zzv.Crashed(func() { err = tm.UpdateTargets(req) })
	zzv.Assert("C10.nocrash", !crashed)
	if crashed {
		return
	}
	zzv.Assert("C10.err.iff.callback", (err != nil) == cbFail)
	zzv.Assert("C10.callback.once", cbCalls == 1)
	info := tm.TargetsInfo()
	// exactly one entry per requested hash, in the requested state
	zzv.Assert("C10.status.size", len(info.Status) == len(want))
	for h := uint64(1); h <= uint64(K); h++ {
		st := info.Status[h]
		w, wanted := want[h]
		zzv.Assert("C10.status.keys", (st != nil) == wanted)
		if st == nil || !wanted {
			continue
		}
		zzv.Assert("C10.status.state", st.TargetState == w.state)
		if p, kept := pre[h]; kept {
			zzv.Cover("tm.kept")
			// C14: the load a kept target contributes (mean of its window, last total) and the window
			// itself (it lives in the status object) survive every update, a transfer begin included
			zzv.Assert("C14.kept.estimate", zzv.And(st == p.obj, st.Series == p.snap.Series, st.TotalSeries == p.snap.TotalSeries))
			zzv.Assert("C10.kept.sameobject", st == p.obj)
			zzv.Assert("C10.kept.stats", zzv.And(st.Series == p.snap.Series, st.TotalSeries == p.snap.TotalSeries, st.Health == p.snap.Health, st.LastError == p.snap.LastError))
			restart := zzv.And(p.state == target.StateNormal, w.state == target.StateInTransfer)
			zzv.Assert("C10.kept.scrapes", st.ScrapeTimes == zzv.IfUint64(restart, 0, p.snap.ScrapeTimes))
		} else {
			zzv.Cover("tm.new")
			zzv.Assert("C10.new.init", zzv.And(st.Health == scrape.HealthUnknown, st.Series == w.series, st.TotalSeries == w.total, st.ScrapeTimes == 0, st.LastError == ""))
		}
	}
	// idle bookkeeping
	switch {
	case len(want) != 0:
		zzv.Assert("C10.idle.cleared", info.IdleAt == nil)
	case len(pre) == 0:
		zzv.Cover("tm.stays.idle")
		zzv.Assert("C10.idle.kept", info.IdleAt != nil && info.IdleAt == idle0 && zzv.TimeNs(*info.IdleAt) == zzv.TimeNs(*idle0))
	default:
		zzv.Cover("tm.becomes.idle")
		zzv.Assert("C10.idle.set", info.IdleAt != nil && zzv.TimeNs(*info.IdleAt) == zzv.TimeNs(now))
	}
	// INV again (targets list and status agree)
	n := 0
	for _, job := range vAllJobs {
		for _, tr := range info.Targets[job] {
			n++
			zzv.Assert("C10.inv.targets", info.Status[tr.Hash] != nil && info.Status[tr.Hash].TargetState == tr.TargetState)
		}
	}
	zzv.Assert("C10.inv.count", n == len(info.Status) && len(info.Targets) <= len(vAllJobs))
	// the load report
	head := zzv.Int64("prom.head")
	zzv.Assume(0 <= head && head <= vMaxSeries)
	svc := vService(tm, head, false)
	res := svc.runtimeInfo(nil)
	rt, ok := res.Data.(*shard.RuntimeInfo)
	zzv.Assert("C10.runtime.type", ok && rt != nil)
	if ok && rt != nil {
		var sumS, sumT int64
		for h := uint64(1); h <= uint64(K); h++ {
			if st := info.Status[h]; st != nil {
				sumS += st.Series
				sumT += st.TotalSeries
			}
		}
		zzv.Assert("C14.runtime.process", rt.ProcessSeries == sumT)
		zzv.Assert("C14.runtime.head", rt.HeadSeries == zzv.IfInt64(head < sumS, sumS, head))
		zzv.Assert("C10.runtime.idle", rt.IdleStartAt == info.IdleAt)
	}
	zzv.Observe("tm", len(info.Status), err != nil, info.IdleAt != nil)
	zzv.Cover("tm.end")
}

// VTMRestart: a fresh manager loading an empty store is idle since now (base case); after two
// arbitrary updates - the second possibly refused by an update callback - a restart resumes the
// last *acknowledged* assignment and the idle-since instant; a second restart changes nothing.
func VTMRestart(K int) {
	dir := zzv.TempDir()
	t0 := zzv.Time("t0")
	timeNow = func() time.Time { return t0 }
	tm := NewTargetsManager(dir, prometheus.NewRegistry(), vLogger())
	refuse := false
	tm.AddUpdateCallbacks(func(map[string][]*target.Target) error {
		if refuse {
			return zzv.Err("reload failed")
		}
		return nil
	})
	err := tm.Load()
	zzv.Assert("C10.base.load", err == nil)
	i0 := tm.TargetsInfo()
	zzv.Assert("C10.base.idle", len(i0.Status) == 0 && i0.IdleAt != nil && zzv.TimeNs(*i0.IdleAt) == zzv.TimeNs(t0))
	req1, want1 := vRequest(K, "r1")
	ta := zzv.Time("ta")
	timeNow = func() time.Time { return ta }
	zzv.Assert("C10.update1.ok", tm.UpdateTargets(req1) == nil)
	acked, ackedIdle := want1, tm.TargetsInfo().IdleAt
	if zzv.Choose("second.update", 2) == 1 {
		req2, want2 := vRequest(K, "r2")
		tb := zzv.Time("tb")
		timeNow = func() time.Time { return tb }
		refuse = zzv.Choose("second.refused", 2) == 1
		err2 := tm.UpdateTargets(req2)
		zzv.Assert("C10.update2.err", (err2 != nil) == refuse)
		if !refuse {
			zzv.Cover("restart.second.acked")
			acked, ackedIdle = want2, tm.TargetsInfo().IdleAt
		} else {
			zzv.Cover("restart.second.refused")
		}
	}
	// restart
	t1 := zzv.Time("t1")
	timeNow = func() time.Time { return t1 }
	tm2 := NewTargetsManager(dir, prometheus.NewRegistry(), vLogger())
	zzv.Assert("C09.restart.load", tm2.Load() == nil)
	after := tm2.TargetsInfo()
	// resuming the acknowledged assignment and idle instant is C09's subject and, for the idle
	// instant and the rebuilt status, also C10's: the label follows the property being checked
	lbl := "C09.restart"
	if !zzv.Prop("C09") {
		lbl = "C10.restart"
	}
	vAssertResumed(lbl, K, after, acked, ackedIdle)
	// C10: the idle-since instant survives the restart (and is cleared when targets are assigned)
	if len(acked) == 0 {
		zzv.Cover("restart.idle")
		zzv.Assert("C10.restart.idle.kept", after.IdleAt != nil && ackedIdle != nil && zzv.TimeNs(*after.IdleAt) == zzv.TimeNs(*ackedIdle))
	} else {
		zzv.Assert("C10.restart.idle.cleared", after.IdleAt == nil)
	}
	// a second restart (no update in between) changes nothing either
	t2 := zzv.Time("t2")
	timeNow = func() time.Time { return t2 }
	tm3 := NewTargetsManager(dir, prometheus.NewRegistry(), vLogger())
	zzv.Assert("C09.restart2.load", tm3.Load() == nil)
	again := tm3.TargetsInfo()
	vAssertResumed(lbl+"2", K, again, acked, ackedIdle)
	if len(acked) == 0 {
		zzv.Assert("C10.restart2.idle.kept", again.IdleAt != nil && ackedIdle != nil && zzv.TimeNs(*again.IdleAt) == zzv.TimeNs(*ackedIdle))
	}
	zzv.Observe("restart", len(after.Status), after.IdleAt != nil)
	zzv.Cover("restart.end")
}

// vAssertResumed: info is exactly the assignment `want` (hash, job, state, estimates), status
// rebuilt with unknown health, idle instant as given.
func vAssertResumed(label string, K int, info TargetsInfo, want map[uint64]*vReq, idle *time.Time) {
	zzv.Assert(label+".size", len(info.Status) == len(want))
	count := 0
	for _, job := range vAllJobs {
		for _, tr := range info.Targets[job] {
			count++
			w := want[tr.Hash]
			zzv.Assert(label+".target", w != nil && vJobs[w.job] == job && tr.TargetState == w.state && tr.Series == w.series && tr.TotalSeries == w.total)
		}
	}
	zzv.Assert(label+".count", count == len(want))
	for h := uint64(1); h <= uint64(K); h++ {
		st := info.Status[h]
		w := want[h]
		zzv.Assert(label+".status.keys", (st != nil) == (w != nil))
		if st != nil && w != nil {
			zzv.Assert(label+".status", st.TargetState == w.state && st.Health == scrape.HealthUnknown)
		}
	}
	if len(want) == 0 {
		zzv.Assert(label+".idle", info.IdleAt != nil && idle != nil && zzv.TimeNs(*info.IdleAt) == zzv.TimeNs(*idle))
	} else {
		zzv.Assert(label+".notidle", info.IdleAt == nil)
	}
}

// VStoreCrash (C09): two consecutive assignments; the second update is interrupted by any of the
// store faults; then two consecutive restarts. Each start must succeed and resume either the
// first or the second assignment, nothing else.
func VStoreCrash(K int) {
	dir := zzv.TempDir()
	file := path.Join(dir, storeFileName)
	t0 := zzv.Time("t0")
	timeNow = func() time.Time { return t0 }
	tm := NewTargetsManager(dir, prometheus.NewRegistry(), vLogger())
	if zzv.Choose("oldstore", 2) == 1 {
		// a store written by an old version: only targets.json exists
		m := map[string][]*target.Target{"job1": {{Hash: 7, Series: 1, TotalSeries: 2}}}
		data, _ := json.Marshal(&m)
		_ = ioutil.WriteFile(path.Join(dir, oldVersionStoreFileName), data, 0755)
		zzv.Cover("store.old")
	}
	zzv.Assert("C09.first.load", tm.Load() == nil)
	req1, want1 := vRequest(K, "r1")
	zzv.Assert("C09.first.update", tm.UpdateTargets(req1) == nil)
	idle1 := tm.TargetsInfo().IdleAt

	t1 := zzv.Time("t1")
	timeNow = func() time.Time { return t1 }
	req2, want2 := vRequest(K, "r2")
	mode := zzv.Choose("w2.mode", 6)
	if mode == 5 && !zzv.Symbolic() {
		zzv.FSFaultSize(vDryRunSize(dir, req2))
	}
	zzv.FSFaultNext("*", mode)
	var err2 error
	crashed := zzv.Crashed(func() {
		if !zzv.FSSkip() {
			err2 = tm.UpdateTargets(req2)
		}
	})
	zzv.FSFaultEnd()
	idle2 := tm.TargetsInfo().IdleAt
	if zzv.FSSkip() {
		// natively the untouched-store faults are produced by not running the update: the idle
		// instant the new assignment would have had is the one the update computes
		if len(want2) == 0 && idle2 == nil {
			idle2 = &t1
		} else if len(want2) != 0 {
			idle2 = nil
		}
	}
	if zzv.Symbolic() {
		zzv.Assert("C09.fault.outcome", crashed == zzv.FaultCrashes(mode))
	}
	_, _ = err2, file

	for start := 1; start <= 2; start++ {
		ts := zzv.Time("t.start" + zzv.Itoa(start))
		timeNow = func() time.Time { return ts }
		fresh := NewTargetsManager(dir, prometheus.NewRegistry(), vLogger())
		lerr := fresh.Load()
		lbl := "C09.start" + zzv.Itoa(start)
		// F1: a write interrupted part-way leaves a truncated store; Load fails (start-up panics)
		// and its deferred UpdateTargets rewrites the store as an empty assignment
		zzv.Finding("C09-F1", mode == 2 || mode == 4 || mode == 5)
		zzv.Assert(lbl+".succeeds", lerr == nil)
		info := fresh.TargetsInfo()
		is1 := vMatches(K, info, want1, idle1)
		is2 := vMatches(K, info, want2, idle2)
		zzv.Finding("C09-F1", mode == 2 || mode == 4 || mode == 5)
		zzv.Assert(lbl+".resumes.old.or.new", is1 || is2)
		if mode == 0 {
			zzv.Assert(lbl+".resumes.acknowledged", is2)
		}
		zzv.Observe("start", start, lerr != nil, len(info.Status), is1, is2)
	}
	zzv.Cover("store.end")
}

// vDryRunSize (native only): how many bytes the store holds after req was applied to a copy of
// dir - the length of the document the real update is about to write.
func vDryRunSize(dir string, req *shard.UpdateTargetsRequest) int {
	clone := zzv.TempDir()
	ents, _ := ioutil.ReadDir(dir)
	for _, e := range ents {
		if b, err := ioutil.ReadFile(path.Join(dir, e.Name())); err == nil {
			_ = ioutil.WriteFile(path.Join(clone, e.Name()), b, 0755)
		}
	}
	tm := NewTargetsManager(clone, prometheus.NewRegistry(), vLogger())
	_ = tm.Load()
	cp := map[string][]*target.Target{}
	for j, ts := range req.Targets {
		for _, t := range ts {
			c := *t
			cp[j] = append(cp[j], &c)
		}
	}
	_ = tm.UpdateTargets(&shard.UpdateTargetsRequest{Targets: cp})
	b, _ := ioutil.ReadFile(path.Join(clone, storeFileName))
	return len(b)
}

// vMatches: does info equal the assignment want (targets per job with hash, state, estimates) and
// the idle instant?
func vMatches(K int, info TargetsInfo, want map[uint64]*vReq, idle *time.Time) bool {
	if len(info.Status) != len(want) {
		return false
	}
	count := 0
	ok := true
	for _, job := range vAllJobs {
		for _, tr := range info.Targets[job] {
			count++
			w := want[tr.Hash]
			if w == nil || vJobs[w.job] != job {
				return false
			}
			ok = zzv.And(ok, tr.TargetState == w.state, tr.Series == w.series, tr.TotalSeries == w.total)
		}
	}
	if count != len(want) {
		return false
	}
	if len(want) == 0 {
		if info.IdleAt == nil || idle == nil {
			return false
		}
		ok = zzv.And(ok, zzv.TimeNs(*info.IdleAt) == zzv.TimeNs(*idle))
	} else if info.IdleAt != nil {
		return false
	}
	return ok
}
