//go:build verif

package target

import "github.com/prometheus/prometheus/model/labels"

// VAddrTarget builds a target with the given hash whose scrape URL is http://<addr>.
func VAddrTarget(h uint64, addr string) *Target {
	return &Target{Hash: h, Labels: labels.Labels{
		{Name: "__address__", Value: addr},
		{Name: "__scheme__", Value: "http"},
	}}
}
