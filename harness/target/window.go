//go:build verif

package target

import (
	kscrape "tkestack.io/kvass/pkg/scrape"
	"tkestack.io/kvass/pkg/zzv"
)

// VWindow (C14): one UpdateScrapeResult from an arbitrary window of length n (0..3) with
// symbolic contents below bound 2^bits: the new window is the last <= 3 results in order,
// Series is the integer mean, TotalSeries the total of this scrape.
func VWindow(n, bits int) {
	bound := int64(1) << uint(bits)
	st := NewScrapeStatus(0, 0)
	old := make([]int64, n)
	for i := 0; i < n; i++ {
		old[i] = zzv.Int64("w" + zzv.Itoa(i))
		zzv.Assume(0 <= old[i] && old[i] < bound)
		st.lastSeries = append(st.lastSeries, old[i])
	}
	scraped := zzv.Int64("scraped")
	total := zzv.Int64("total")
	zzv.Assume(0 <= scraped && scraped < bound)
	zzv.Assume(0 <= total && total < bound)
	r := kscrape.NewStatisticsSeriesResult()
	r.ScrapedTotal = float64(scraped)
	r.Total = float64(total)
	crashed := zzv.Crashed(func() { st.UpdateScrapeResult(r) })
	zzv.Assert("C14.window.nocrash", !crashed)
	if crashed {
		return
	}
	want := append([]int64{}, old...)
	want = append(want, scraped)
	if len(want) > 3 {
		want = want[len(want)-3:]
	}
	zzv.Assert("C14.window.len", len(st.lastSeries) == len(want))
	sum := int64(0)
	same := true
	for i := 0; i < len(want) && i < len(st.lastSeries); i++ {
		same = zzv.And(same, st.lastSeries[i] == want[i])
		sum += want[i]
	}
	zzv.Assert("C14.window.contents", same)
	zzv.Assert("C14.window.mean", st.Series == sum/int64(len(want)))
	zzv.Assert("C14.window.total", st.TotalSeries == total)
	zzv.Assert("C14.window.stats", st.LastScrapeStatistics == r)
	zzv.Observe("window", len(st.lastSeries), st.Series, st.TotalSeries)
	zzv.Cover("window.end")
}
