//go:build verif

package target

var vEntries = map[string]interface{}{
	"VWindow": VWindow,
}
