//go:build verif

package scrape

import (
	"time"

	"github.com/prometheus/common/model"
	"github.com/prometheus/prometheus/config"
	"github.com/prometheus/prometheus/model/relabel"
	"github.com/sirupsen/logrus"

	"tkestack.io/kvass/pkg/prom"
	"tkestack.io/kvass/pkg/zzv"
)

// vNewJobInfo stands in for newJobInfo under the symbolic executor (the HTTP client construction
// of prometheus/common cannot be executed): a job entry that carries the given configuration.
func vNewJobInfo(cfg config.ScrapeConfig, keeAliveDisable bool) (*JobInfo, error) {
	return &JobInfo{Config: &cfg}, nil
}

func vRule(name string) *relabel.Config {
	// (no regular expression: the rules are only compared by identity here)
	return &relabel.Config{SourceLabels: model.LabelNames{"__name__"}, Action: relabel.Drop, Separator: name}
}

func vReloadCfg(jobs map[string][]*relabel.Config, order []string) *prom.ConfigInfo {
	c := &config.Config{}
	for _, j := range order {
		rules, ok := jobs[j]
		if !ok {
			continue
		}
		c.ScrapeConfigs = append(c.ScrapeConfigs, &config.ScrapeConfig{JobName: j, ScrapeTimeout: model.Duration(10 * time.Second), MetricRelabelConfigs: rules})
	}
	return &prom.ConfigInfo{Config: c}
}

// VManagerReload (C14): the series accounting judges samples by the metric-relabel rules of the
// job's CURRENT configuration: after a reload the scrape manager hands out, for every job of the
// new configuration, exactly that configuration (its rule list, object for object), and nothing
// for a removed job - whatever the previous configuration was (same job with the same client
// settings and other rules, fewer or more rules, job added, job removed).
func VManagerReload() {
	m := New(false, logrus.New())
	order := []string{"job1", "job2"}
	ra, rb := vRule("a"), vRule("b")
	pick := func(name string) map[string][]*relabel.Config {
		out := map[string][]*relabel.Config{}
		for _, j := range order {
			switch zzv.Choose(name+"."+j, 4) {
			case 1:
				out[j] = nil
			case 2:
				out[j] = []*relabel.Config{ra}
			case 3:
				out[j] = []*relabel.Config{rb, ra}
			}
		}
		return out
	}
	first, second := pick("cfg1"), pick("cfg2")
	zzv.Assert("C14.reload.apply1", m.ApplyConfig(vReloadCfg(first, order)) == nil)
	zzv.Assert("C14.reload.apply2", m.ApplyConfig(vReloadCfg(second, order)) == nil)
	for _, j := range order {
		want, has := second[j]
		info := m.GetJob(j)
		zzv.Assert("C14.reload.job.known.iff.configured", (info != nil) == has)
		if info == nil || !has {
			continue
		}
		zzv.Cover("reload.job.kept")
		same := info.Config != nil && len(info.Config.MetricRelabelConfigs) == len(want)
		for i := 0; same && i < len(want); i++ {
			same = info.Config.MetricRelabelConfigs[i] == want[i]
		}
		zzv.Assert("C14.reload.current.rules", same)
	}
	zzv.Observe("reload", len(second))
	zzv.Cover("reload.end")
}
