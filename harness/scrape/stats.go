//go:build verif

package scrape

import (
	parser "github.com/VictoriaMetrics/VictoriaMetrics/lib/protoparser/prometheus"
	"github.com/prometheus/common/model"
	"github.com/prometheus/prometheus/model/labels"
	"github.com/prometheus/prometheus/model/relabel"

	"tkestack.io/kvass/pkg/zzv"
)

// VKeep scripts the verdict of the job's metric relabel rules per sample (in call order): the
// contract model of relabel.Process is "identity when no rule is configured, otherwise nil
// (dropped) or the label set (kept)".
var VKeep []bool
var vKeepCalls int
var vSeenNames []string

// VRelabelModel replaces relabel.Process under the symbolic executor.
func VRelabelModel(lset labels.Labels, cfgs ...*relabel.Config) labels.Labels {
	if len(lset) > 0 && lset[0].Name == "__name__" {
		vSeenNames = append(vSeenNames, lset[0].Value)
	}
	if len(cfgs) == 0 {
		return lset
	}
	i := vKeepCalls
	vKeepCalls++
	if i < len(VKeep) && !VKeep[i] {
		return nil
	}
	return lset
}

// VStats (C14): StatisticSeries over n rows (two blocks, as ParseStream delivers rows in blocks)
// with metric names from a pool of 2 and a symbolic keep/drop verdict per row.
func VStats(n int) {
	names := []string{"m1", "m2"}
	rows := make([]parser.Row, n)
	isM1 := make([]bool, n)
	VKeep = make([]bool, n)
	vKeepCalls = 0
	vSeenNames = nil
	for i := 0; i < n; i++ {
		k := zzv.Choose("row"+zzv.Itoa(i)+".name", 2)
		isM1[i] = k == 0
		rows[i] = parser.Row{Metric: names[k], Tags: []parser.Tag{{Key: "l", Value: "v" + zzv.Itoa(i)}}}
		VKeep[i] = zzv.Bool("row" + zzv.Itoa(i) + ".keep")
	}
	rc := []*relabel.Config{{}}
	if !zzv.Symbolic() {
		// natively the real relabel.Process runs: a drop rule on the per-row label "l" realises
		// the scripted verdicts
		re := "nomatch"
		for i := 0; i < n; i++ {
			if !VKeep[i] {
				re += "|v" + zzv.Itoa(i)
			}
		}
		rc = []*relabel.Config{{SourceLabels: model.LabelNames{"l"}, Separator: ";", Regex: relabel.MustNewRegexp(re), Action: relabel.Drop}}
	}
	res := NewStatisticsSeriesResult()
	split := zzv.Choose("split", n+1)
	crashed := zzv.Crashed(func() {
		StatisticSeries(rows[:split], rc, res)
		StatisticSeries(rows[split:], rc, res)
	})
	zzv.Assert("C14.stats.nocrash", !crashed)
	if crashed {
		return
	}
	var kept, m1, m1kept, m2, m2kept float64
	for i := 0; i < n; i++ {
		k := zzv.IfFloat(VKeep[i], 1, 0)
		kept += k
		if isM1[i] {
			m1++
			m1kept += k
		} else {
			m2++
			m2kept += k
		}
	}
	zzv.Assert("C14.stats.total", res.Total == float64(n))
	zzv.Assert("C14.stats.scraped", res.ScrapedTotal == kept)
	var sumT, sumS float64
	for _, mi := range res.MetricsTotal {
		sumT += mi.Total
		sumS += mi.Scraped
	}
	zzv.Assert("C14.stats.permetric.sums", sumT == res.Total && sumS == res.ScrapedTotal)
	if m1 > 0 {
		zzv.Assert("C14.stats.m1", res.MetricsTotal["m1"] != nil && res.MetricsTotal["m1"].Total == m1 && res.MetricsTotal["m1"].Scraped == m1kept)
	} else {
		zzv.Assert("C14.stats.m1.absent", res.MetricsTotal["m1"] == nil)
	}
	if m2 > 0 {
		zzv.Assert("C14.stats.m2", res.MetricsTotal["m2"] != nil && res.MetricsTotal["m2"].Total == m2 && res.MetricsTotal["m2"].Scraped == m2kept)
	}
	// each sample is judged on its own labels: the model saw one call per row with that row's name
	if zzv.Symbolic() {
		zzv.Assert("C14.stats.ownlabels.calls", vKeepCalls == n && len(vSeenNames) == n)
		for i := 0; i < n && i < len(vSeenNames); i++ {
			zzv.Assert("C14.stats.ownlabels", vSeenNames[i] == rows[i].Metric)
		}
	}
	zzv.Observe("stats", n, res.Total, res.ScrapedTotal)
	zzv.Cover("stats.end")
}

// VManagerWith builds a scrape.Manager that knows exactly one job (harnesses of other packages
// cannot reach the unexported job table).
func VManagerWith(job string, info *JobInfo) *Manager {
	m := &Manager{jobs: map[string]*JobInfo{}}
	if info != nil {
		m.jobs[job] = info
	}
	return m
}
