//go:build verif

package scrape

var vEntries = map[string]interface{}{
	"VStats": VStats,
	"VTee":   VTee,
}
