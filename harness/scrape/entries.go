//go:build verif

package scrape

var vEntries = map[string]interface{}{
	"VStats": VStats,
	"VManagerReload": VManagerReload,
	"VTee":   VTee,
}
