//go:build verif

package scrape

import (
	"io"

	"tkestack.io/kvass/pkg/zzv"
)

// vSrc is one reader step: it fills p[0:n] with symbolic bytes and returns (n, err).
type vSrc struct {
	n    int
	err  error
	data []byte
}

func (r *vSrc) Read(p []byte) (int, error) {
	copy(p, r.data[:r.n])
	return r.n, r.err
}
func (r *vSrc) Close() error { return nil }

// vSink is a writer with an arbitrary short-write schedule and an optional failure.
type vSink struct {
	name   string
	got    []byte
	calls  int
	sizes  []int // bytes accepted by the k-th call (0 < size <= offered)
	failAt int   // call number (1-based) that fails, 0 = never
}

var vErrSink = zzv.Err("short write / broken pipe")

func (s *vSink) Write(p []byte) (int, error) {
	s.calls++
	if s.failAt != 0 && s.calls == s.failAt {
		return 0, vErrSink
	}
	n := len(p)
	if s.calls <= len(s.sizes) && s.sizes[s.calls-1] < n {
		n = s.sizes[s.calls-1]
	}
	s.got = append(s.got, p[:n]...)
	return n, nil
}

// VTee (C12 kernel): one wrappedReader.Read from an arbitrary reader step with symbolic bytes,
// W writers with arbitrary short-write schedules and failures.
func VTee(L, W int) {
	n := zzv.Choose("n", L+1)
	src := &vSrc{n: n, data: make([]byte, L)}
	for i := 0; i < L; i++ {
		src.data[i] = zzv.Byte("b" + zzv.Itoa(i))
	}
	switch zzv.Choose("rerr", 3) {
	case 1:
		src.err = io.EOF
	case 2:
		src.err = zzv.Err("read error")
	}
	var sinks []*vSink
	var ws []io.Writer
	for k := 0; k < W; k++ {
		s := &vSink{name: "w" + zzv.Itoa(k)}
		// up to 3 partial writes of 1 or 2 bytes before the rest is accepted
		np := zzv.Choose(s.name+".partials", 4)
		for j := 0; j < np; j++ {
			s.sizes = append(s.sizes, 1+zzv.Choose(s.name+".size"+zzv.Itoa(j), 2))
		}
		s.failAt = zzv.Choose(s.name+".failAt", 4)
		sinks = append(sinks, s)
		ws = append(ws, s)
	}
	r := wrapReader(src, ws...)
	p := make([]byte, L)
	var gotN int
	var gotErr error
	crashed := zzv.Crashed(func() { gotN, gotErr = r.Read(p) })
	zzv.Assert("C12.tee.nocrash", !crashed)
	if crashed {
		return
	}
	zzv.Assert("C12.tee.n", gotN == n)
	failed := false
	for _, s := range sinks {
		if failed {
			// writers after a failed one get nothing more (the error is returned at once)
			continue
		}
		if s.failAt != 0 && s.calls >= s.failAt {
			failed = true
			zzv.Cover("tee.writer.failed")
			zzv.Assert("C12.tee.writererr", gotErr == vErrSink)
			// what it accepted before failing is a prefix of the data
			ok := len(s.got) <= n
			for i := 0; ok && i < len(s.got); i++ {
				ok = zzv.And(ok, s.got[i] == src.data[i])
			}
			zzv.Assert("C12.tee.prefix", ok)
			continue
		}
		zzv.Cover("tee.writer.complete")
		same := len(s.got) == n
		for i := 0; same && i < n; i++ {
			same = zzv.And(same, s.got[i] == src.data[i])
		}
		zzv.Assert("C12.tee.exact", same)
	}
	if !failed {
		zzv.Assert("C12.tee.err", gotErr == src.err)
		same := true
		for i := 0; i < n; i++ {
			same = zzv.And(same, p[i] == src.data[i])
		}
		zzv.Assert("C12.tee.caller.bytes", same)
	}
	zzv.Observe("tee", gotN, gotErr != nil, failed)
	zzv.Cover("tee.end")
}
