//go:build verif

package discovery

var vEntries = map[string]interface{}{
	"VDisc": VDisc,
	"VDiscRun": VDiscRun,
	"VDiscBadGroup": VDiscBadGroup,
	"VHash": VHash,
	"VHashDedupe": VHashDedupe,
}
