//go:build verif

package discovery

var vEntries = map[string]interface{}{
	"VDisc": VDisc,
	"VHash": VHash,
	"VHashDedupe": VHashDedupe,
}
