//go:build verif

package discovery

var vEntries = map[string]interface{}{
	"VDisc": VDisc,
	"VDiscRun": VDiscRun,
	"VHash": VHash,
	"VHashDedupe": VHashDedupe,
}
