//go:build verif

package discovery

import (
	"context"

	"github.com/prometheus/common/model"
	"github.com/prometheus/prometheus/discovery/targetgroup"

	"tkestack.io/kvass/pkg/zzv"
)

func vOneGroup(job string, hs ...int) []*targetgroup.Group {
	tg := &targetgroup.Group{Source: job}
	for _, h := range hs {
		tg.Targets = append(tg.Targets, model.LabelSet{model.AddressLabel: model.LabelValue("h" + zzv.Itoa(h) + ":80")})
	}
	return []*targetgroup.Group{tg}
}

func vIsList(got []*SDTargets, want ...uint64) bool { return vSameList(got, want) }

// VDiscRun (C17, bounded thread model): the real TargetsDiscovery.Run loop consumes discovery
// updates from its channel while the driver reloads the configuration and a reader goroutine
// takes snapshots, under every schedule (switches at synchronisation operations, preemption
// bound P). scenario 0: the reload keeps j1 and removes j2; 1: the reload keeps both; 2: two rounds
// for j1 are delivered ([3], then [4]) around a reload that keeps both jobs.
func VDiscRun(scenario, P int) {
	zzv.Threads(P)
	m := New(vLogger())
	_ = m.ApplyConfig(vConfig("j1", "j2"))
	_ = m.translateTargets(map[string][]*targetgroup.Group{"j1": vOneGroup("j1", 1), "j2": vOneGroup("j2", 2)})
	sd := make(chan map[string][]*targetgroup.Group, 4)
	ctx, cancel := context.WithCancel(context.Background())
	runDone := false
	go func() {
		_ = m.Run(ctx, sd)
		runDone = true
	}()
	// a reader: whatever it sees, the kept job j1 is there with the targets of one of its updates
	readerDone := false
	go func() {
		for i := 0; i < 2; i++ {
			a := m.ActiveTargets()
			zzv.AssertSym("C17.run.reader.kept.never.missing", vIsList(a["j1"], 1) || vIsList(a["j1"], 3) || (scenario == 2 && vIsList(a["j1"], 4)))
			j2, has2 := a["j2"]
			zzv.AssertSym("C17.run.reader.j2", !has2 || vIsList(j2, 2))
			byHash := m.ActiveTargetsByHash()
			n134 := 0
			for _, h := range []uint64{1, 3, 4} {
				if byHash[h] != nil {
					n134++
				}
			}
			zzv.AssertSym("C17.run.reader.byhash", n134 == 1)
		}
		readerDone = true
	}()
	// the discovery manager delivers the next round for j1 while the configuration is reloaded
	sd <- map[string][]*targetgroup.Group{"j1": vOneGroup("j1", 3)}
	if scenario == 0 {
		_ = m.ApplyConfig(vConfig("j1"))
	} else {
		_ = m.ApplyConfig(vConfig("j1", "j2"))
	}
	last, rounds := uint64(3), 1
	if scenario == 2 {
		sd <- map[string][]*targetgroup.Group{"j1": vOneGroup("j1", 4)}
		last, rounds = 4, 2
	}
	zzv.Quiesce()
	a := m.ActiveTargets()
	d := m.DropTargets()
	zzv.AssertSym("C17.run.latest.update.wins", vIsList(a["j1"], last))
	_, has2 := a["j2"]
	_, hasD2 := d["j2"]
	if scenario == 0 {
		zzv.AssertSym("C17.run.removed.job.gone", !has2 && !hasD2)
	} else {
		zzv.AssertSym("C17.run.kept.job.untouched", vIsList(a["j2"], 2) && hasD2)
	}
	zzv.AssertSym("C17.run.notified", len(m.activeTargetsChan) == rounds && readerDone)
	if len(m.activeTargetsChan) == rounds {
		n := <-m.activeTargetsChan
		zzv.AssertSym("C17.run.notified.contents", len(n) == 1 && vIsList(n["j1"], 3))
		if rounds == 2 {
			n = <-m.activeTargetsChan
			zzv.AssertSym("C17.run.notified.contents", len(n) == 1 && vIsList(n["j1"], 4))
		}
	}
	cancel()
	zzv.Quiesce()
	zzv.AssertSym("C17.run.stops.on.cancel", runDone)
	zzv.Cover("discrun.end")
}
