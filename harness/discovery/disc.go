//go:build verif

package discovery

import (
	"github.com/prometheus/common/model"
	"github.com/prometheus/prometheus/config"
	"github.com/prometheus/prometheus/discovery/targetgroup"
	"github.com/prometheus/prometheus/model/labels"
	"github.com/prometheus/prometheus/model/relabel"
	"github.com/prometheus/prometheus/scrape"
	"github.com/sirupsen/logrus"

	"tkestack.io/kvass/pkg/prom"
	"tkestack.io/kvass/pkg/target"
	"tkestack.io/kvass/pkg/zzv"
)

func vLogger() logrus.FieldLogger { return logrus.New() }

// ---- summary of targetsFromGroup (its own behaviour is C15 / C02 territory) ----
//
// Under the symbolic executor targetsFromGroup is replaced by vTargetsFromGroup and the label
// accessors of the opaque scrape.Target by vPromLabels / vPromDiscovered. A discovered entry is
// "active" unless it carries drop="1" (natively the job has a relabel rule dropping those).

var vKind = map[*scrape.Target]bool{} // true: active (has final labels)
var vProduced [][]*SDTargets          // every list the summary returned, in call order

func vTargetsFromGroup(tg *targetgroup.Group, cfg *config.ScrapeConfig) ([]*SDTargets, error) {
	out := make([]*SDTargets, 0, len(tg.Targets))
	for _, ls := range tg.Targets {
		addr := string(ls[model.AddressLabel])
		if addr == "" {
			// like the real function: a target without an address makes the whole group fail
			return nil, zzv.Err("no address")
		}
		pt := &scrape.Target{}
		vKind[pt] = ls["drop"] != "1"
		out = append(out, &SDTargets{Job: cfg.JobName, PromTarget: pt, ShardTarget: &target.Target{Hash: vHashOfAddr(addr)}})
	}
	vProduced = append(vProduced, out)
	return out, nil
}

func vPromLabels(t *scrape.Target) labels.Labels {
	if vKind[t] {
		return labels.Labels{{Name: "instance", Value: "x"}}
	}
	return nil
}

func vPromDiscovered(t *scrape.Target) labels.Labels {
	return labels.Labels{{Name: model.AddressLabel, Value: "x"}}
}

// addresses are "h<k>:80"; the summary's hash of one is k
func vHashOfAddr(addr string) uint64 {
	if len(addr) >= 2 && addr[0] == 'h' {
		return uint64(addr[1] - '0')
	}
	return 0
}

func vJobCfg(name string) *config.ScrapeConfig {
	c := &config.ScrapeConfig{JobName: name, Scheme: "http", MetricsPath: "/metrics"}
	if !zzv.Symbolic() {
		c.RelabelConfigs = []*relabel.Config{{SourceLabels: model.LabelNames{"drop"}, Regex: relabel.MustNewRegexp("1"), Action: relabel.Drop, Separator: ";"}}
	}
	return c
}

func vConfig(jobs ...string) *prom.ConfigInfo {
	c := &config.Config{}
	for _, j := range jobs {
		c.ScrapeConfigs = append(c.ScrapeConfigs, vJobCfg(j))
	}
	return &prom.ConfigInfo{Config: c}
}

type vExpect struct{ active, drop []uint64 }

// vUpdate builds one discovery update: for each job of `jobs` chosen to take part, up to 2
// groups with up to `T` targets each, every target active or dropped. next numbers addresses.
func vUpdate(name string, jobs []string, G, T int, next *int) (map[string][]*targetgroup.Group, map[string]*vExpect) {
	u := map[string][]*targetgroup.Group{}
	exp := map[string]*vExpect{}
	for _, j := range jobs {
		p := name + "." + j
		if zzv.Choose(p+".in", 2) == 0 {
			continue
		}
		e := &vExpect{}
		ng := 1 + zzv.Choose(p+".groups", G)
		var gs []*targetgroup.Group
		for g := 0; g < ng; g++ {
			tg := &targetgroup.Group{Source: p + ".g" + zzv.Itoa(g)}
			nt := zzv.Choose(p+".g"+zzv.Itoa(g)+".n", T+1)
			for k := 0; k < nt; k++ {
				*next++
				ls := model.LabelSet{model.AddressLabel: model.LabelValue("h" + zzv.Itoa(*next) + ":80")}
				if zzv.Choose(p+".g"+zzv.Itoa(g)+".t"+zzv.Itoa(k)+".drop", 2) == 1 {
					ls["drop"] = "1"
					e.drop = append(e.drop, uint64(*next))
				} else {
					e.active = append(e.active, uint64(*next))
				}
				tg.Targets = append(tg.Targets, ls)
			}
			gs = append(gs, tg)
		}
		u[j] = gs
		exp[j] = e
	}
	return u, exp
}

func vSameList(got []*SDTargets, want []uint64) bool {
	if len(got) != len(want) {
		return false
	}
	for i := range got {
		if got[i].ShardTarget.Hash != want[i] {
			return false
		}
	}
	return true
}

func vIdentical(a, b []*SDTargets) bool {
	if len(a) != len(b) {
		return false
	}
	for i := range a {
		if a[i] != b[i] {
			return false
		}
	}
	return true
}

// VDiscBadGroup (C17): a group that cannot be translated (a target without an address) is skipped
// on its own: the job's other groups - before and after it in the update - still arrive.
func VDiscBadGroup() {
	m := New(vLogger())
	_ = m.ApplyConfig(vConfig("j1"))
	good := func(src string, h int) *targetgroup.Group {
		return &targetgroup.Group{Source: src, Targets: []model.LabelSet{{model.AddressLabel: model.LabelValue("h" + zzv.Itoa(h) + ":80")}}}
	}
	bad := &targetgroup.Group{Source: "bad", Targets: []model.LabelSet{{"foo": "bar"}}}
	var gs []*targetgroup.Group
	pos := zzv.Choose("bad.position", 3)
	switch pos {
	case 0:
		gs = []*targetgroup.Group{bad, good("a", 1), good("b", 2)}
	case 1:
		gs = []*targetgroup.Group{good("a", 1), bad, good("b", 2)}
	default:
		gs = []*targetgroup.Group{good("a", 1), good("b", 2), bad}
	}
	ret := m.translateTargets(map[string][]*targetgroup.Group{"j1": gs})
	a := m.ActiveTargets()
	kept := len(a["j1"]) == 2 && len(ret["j1"]) == 2
	if zzv.Symbolic() {
		kept = kept && vSameList(a["j1"], []uint64{1, 2}) && vSameList(ret["j1"], []uint64{1, 2})
	}
	zzv.Assert("C17.badgroup.others.kept", kept)
	zzv.Observe("badgroup", pos, len(a["j1"]))
	zzv.Cover("badgroup.end")
}

// VDisc (C17): a first update, then one step (an update, or a reload that keeps / removes /
// adds jobs); readers taken before the step must not change.
func VDisc(G, T int) {
	m := New(vLogger())
	_ = m.ApplyConfig(vConfig("j1", "j2"))
	next := 0
	u0, e0 := vUpdate("u0", []string{"j1", "j2"}, G, T, &next)
	ret0 := m.translateTargets(u0)
	// after the first (possibly partial) round each updated job has exactly its targets
	a0, d0, h0 := m.ActiveTargets(), m.DropTargets(), m.ActiveTargetsByHash()
	for _, j := range []string{"j1", "j2"} {
		e, in := e0[j]
		a, hasA := a0[j]
		d, hasD := d0[j]
		zzv.Assert("C17.first.present", hasA == in && hasD == in)
		if in && zzv.Symbolic() {
			zzv.Assert("C17.first.exact", vSameList(a, e.active) && vSameList(d, e.drop) && vSameList(ret0[j], e.active))
		}
	}
	// the maps above are the snapshots whose stability is checked after the step
	a0j1, a0j2, d0j1, d0j2 := a0["j1"], a0["j2"], d0["j1"], d0["j2"]
	nA0, nD0, nH0 := len(a0), len(d0), len(h0)

	if zzv.Choose("step", 2) == 0 {
		zzv.Cover("disc.update")
		u1, e1 := vUpdate("u1", []string{"j1", "j3"}, G, T, &next)
		locks0 := zzv.LockCount()
		_ = m.translateTargets(u1)
		zzv.AssertSym("C17.update.single.critical.section", zzv.LockCount()-locks0 == 1)
		a1, d1 := m.ActiveTargets(), m.DropTargets()
		for _, j := range []string{"j1", "j2"} {
			if e, in := e1[j]; in {
				zzv.Cover("disc.job.updated")
				if zzv.Symbolic() {
					zzv.Assert("C17.update.exact", vSameList(a1[j], e.active) && vSameList(d1[j], e.drop))
				}
			} else {
				zzv.Cover("disc.job.untouched")
				zzv.Assert("C17.update.untouched", vIdentical(a1[j], a0[j]) && vIdentical(d1[j], d0[j]))
			}
		}
		_, hasJ3 := a1["j3"]
		zzv.Assert("C17.update.unknownjob.ignored", !hasJ3)
		zzv.Observe("update", len(a1["j1"]), len(a1["j2"]), len(d1["j1"]), len(d1["j2"]))
	} else {
		zzv.Cover("disc.reload")
		// reload: keep j1 or not, keep j2 or not, add j4
		keep1 := zzv.Choose("reload.keep.j1", 2) == 1
		keep2 := zzv.Choose("reload.keep.j2", 2) == 1
		jobs := []string{"j4"}
		if keep1 {
			jobs = append(jobs, "j1")
		}
		if keep2 {
			jobs = append(jobs, "j2")
		}
		locks0 := zzv.LockCount()
		_ = m.ApplyConfig(vConfig(jobs...))
		// a reload reads the current sets and installs the new ones in ONE critical section;
		// otherwise a discovery update could slip in between and be overwritten (structural
		// lemma standing in for the interleavings that are not explored)
		zzv.AssertSym("C17.reload.single.critical.section", zzv.LockCount()-locks0 == 1)
		a1, d1 := m.ActiveTargets(), m.DropTargets()
		for i, j := range []string{"j1", "j2"} {
			keep := keep1
			if i == 1 {
				keep = keep2
			}
			_, had := a0[j]
			_, has := a1[j]
			_, hasD := d1[j]
			if keep {
				zzv.Cover("disc.reload.kept")
				zzv.Assert("C17.reload.kept", has == had && hasD == had && vIdentical(a1[j], a0[j]) && vIdentical(d1[j], d0[j]))
			} else {
				zzv.Cover("disc.reload.removed")
				zzv.Assert("C17.reload.removed", !has && !hasD)
			}
		}
		_, hasJ4 := a1["j4"]
		zzv.Assert("C17.reload.newjob.empty", !hasJ4)
		// an update for a removed job is ignored, one for the new job is taken
		u2, e2 := vUpdate("u2", []string{"j1", "j4"}, G, T, &next)
		_ = m.translateTargets(u2)
		a2 := m.ActiveTargets()
		if _, in := e2["j1"]; in && !keep1 {
			_, has := a2["j1"]
			zzv.Assert("C17.reload.removedjob.ignored", !has)
		}
		if e, in := e2["j4"]; in && zzv.Symbolic() {
			zzv.Assert("C17.reload.newjob.tracked", vSameList(a2["j4"], e.active))
		}
		zzv.Observe("reload", keep1, keep2, len(a2["j1"]), len(a2["j2"]), len(a2["j4"]))
	}
	// snapshot isolation: what readers returned before the step is unchanged
	zzv.Assert("C17.snapshot.maps", len(a0) == nA0 && len(d0) == nD0 && len(h0) == nH0)
	zzv.Assert("C17.snapshot.lists", vIdentical(a0["j1"], a0j1) && vIdentical(a0["j2"], a0j2) && vIdentical(d0["j1"], d0j1) && vIdentical(d0["j2"], d0j2))
	if zzv.Symbolic() {
		for _, j := range []string{"j1", "j2"} {
			if e, in := e0[j]; in {
				zzv.Assert("C17.snapshot.contents", vSameList(a0[j], e.active) && vSameList(d0[j], e.drop))
			}
		}
	}
	zzv.Cover("disc.end")
}
