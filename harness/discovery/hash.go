//go:build verif

package discovery

import (
	"net/url"
	"github.com/prometheus/common/model"
	"github.com/prometheus/prometheus/config"
	"github.com/prometheus/prometheus/discovery/targetgroup"
	"github.com/prometheus/prometheus/model/labels"
	"github.com/prometheus/prometheus/model/relabel"

	"tkestack.io/kvass/pkg/zzv"
)

// vNoRelabel stands in for relabel.Process when the job has no relabel rules (identity).
func vNoRelabel(lset labels.Labels, cfgs ...*relabel.Config) labels.Labels { return lset }

func vHashCfg() *config.ScrapeConfig {
	return &config.ScrapeConfig{JobName: "job1", Scheme: "http", MetricsPath: "/metrics"}
}

// vGroup builds a target group for one address. The final labels are always
// {__address__, foo=<foo>, "bad-name"=<bad>, job, __scheme__, __metrics_path__, instance}.
// split: which of foo / bad-name sit on the group and which on the target (bit mask);
// meta: value of a __meta_ label (removed after relabelling, so it must not influence the hash).
func vGroup(addr string, foo, bad, meta string, split int, withMeta bool) *targetgroup.Group {
	t := model.LabelSet{model.AddressLabel: model.LabelValue(addr)}
	g := model.LabelSet{}
	put := func(bit int, name, val string) {
		if split&bit != 0 {
			g[model.LabelName(name)] = model.LabelValue(val)
		} else {
			t[model.LabelName(name)] = model.LabelValue(val)
		}
	}
	put(1, "foo", foo)
	put(2, "bad-name", bad)
	if withMeta {
		put(4, "__meta_kubernetes_pod_uid", meta)
	}
	return &targetgroup.Group{Source: "src", Targets: []model.LabelSet{t}, Labels: g}
}

// VHash (C15): the hash is a function of the final label set and URL only.
// variant 0: two discoveries of the same target that differ in everything that must not matter -
// where the labels sit (group or target), a __meta_ label and its value, and (through the forks of
// the executor) every map-iteration order - give the same hash and the same shipped labels.
// variant 1: equal inputs give equal hashes; a differing label value is visible in the hash input.
// variant 2: the hash is sensitive to every final label: two targets that differ only in the value
// of one label that survives into the final label set (an ordinary one, or a reserved one such as
// __tmp_x that is not a __meta_ label and not part of the URL) CAN have different hashes - with
// the hash functions uninterpreted this is satisfiable exactly when the label reaches the hash.
func VHash(variant int) {
	if variant == 2 {
		vHashSensitive()
		return
	}
	cfg := vHashCfg()
	foo, bad := zzv.Str("foo"), zzv.Str("bad")
	zzv.Assume(foo != "" && bad != "")
	addr := "h1:80"
	if zzv.Choose("noport", 2) == 1 {
		addr = "h1" // the default port of the scheme is added
	}
	g1 := vGroup(addr, foo, bad, zzv.Str("meta1"), 0, true)
	r1, err1 := targetsFromGroup(g1, cfg)
	var g2 *targetgroup.Group
	if variant == 0 {
		g2 = vGroup(addr, foo, bad, zzv.Str("meta2"), zzv.Choose("split2", 4)|4, zzv.Choose("meta2.on", 2) == 1)
	} else {
		g2 = vGroup(addr, zzv.Str("foo2"), bad, "", zzv.Choose("split2", 4), false)
	}
	r2, err2 := targetsFromGroup(g2, cfg)
	zzv.Assert("C15.hash.noerror", err1 == nil && err2 == nil && len(r1) == 1 && len(r2) == 1)
	if err1 != nil || err2 != nil || len(r1) != 1 || len(r2) != 1 {
		return
	}
	if variant == 0 {
		zzv.Cover("hash.two.runs")
		zzv.Assert("C15.hash.function.of.final.labels", r1[0].ShardTarget.Hash == r2[0].ShardTarget.Hash)
		// the shipped labels are the final ones too (invalid names prefixed), in both runs
		l1, l2 := r1[0].ShardTarget.Labels, r2[0].ShardTarget.Labels
		same := len(l1) == len(l2)
		for i := 0; same && i < len(l1); i++ {
			same = zzv.And(same, l1[i].Name == l2[i].Name, l1[i].Value == l2[i].Value)
		}
		zzv.Assert("C15.hash.same.final.labels", same)
		for _, l := range l1 {
			zzv.Assert("C15.hash.nometa", len(l.Name) < 7 || l.Name[:7] != "__meta_")
		}
	} else {
		zzv.Cover("hash.equal.inputs")
		zzv.Assert("C15.hash.equal.inputs.equal.hash", zzv.Implies(zzv.Str("foo2") == foo, r2[0].ShardTarget.Hash == r1[0].ShardTarget.Hash))
	}
	zzv.Observe("hash", len(r1), len(r2))
	zzv.Cover("hash.end")
}

func vHashSensitive() {
	cfg := vHashCfg()
	which := zzv.Choose("which", 5)
	if which == 4 {
		// label boundaries are part of the hash: two different label sets whose names and values
		// read the same when written one after the other ({team="a"} and {tea="ma"})
		mkb := func(n, v string) *targetgroup.Group {
			t := model.LabelSet{model.AddressLabel: "h1:80", model.LabelName(n): model.LabelValue(v)}
			return &targetgroup.Group{Source: "src", Targets: []model.LabelSet{t}}
		}
		r1, err1 := targetsFromGroup(mkb("team", "a"), cfg)
		r2, err2 := targetsFromGroup(mkb("tea", "ma"), cfg)
		zzv.Assert("C15.sensitive.noerror", err1 == nil && err2 == nil && len(r1) == 1 && len(r2) == 1)
		if err1 != nil || err2 != nil || len(r1) != 1 || len(r2) != 1 {
			return
		}
		zzv.Cover("hash.sensitive.boundary")
		zzv.Assert("C15.hash.sensitive.to.label.boundary", zzv.Feasible(r1[0].ShardTarget.Hash != r2[0].ShardTarget.Hash))
		zzv.Observe("sensitive", "boundary")
		zzv.Cover("hash.end")
		return
	}
	if which == 3 {
		// the URL is part of the hash with its whole query: two jobs whose params differ only in
		// the second value of a multi-valued parameter (which no label carries)
		mkc := func(second string) *config.ScrapeConfig {
			c := vHashCfg()
			c.Params = url.Values{"collect[]": {"cpu", second}}
			return c
		}
		g := &targetgroup.Group{Source: "src", Targets: []model.LabelSet{{model.AddressLabel: "h1:80"}}}
		r1, err1 := targetsFromGroup(g, mkc("mem"))
		r2, err2 := targetsFromGroup(g, mkc("disk"))
		zzv.Assert("C15.sensitive.noerror", err1 == nil && err2 == nil && len(r1) == 1 && len(r2) == 1)
		if err1 != nil || err2 != nil || len(r1) != 1 || len(r2) != 1 {
			return
		}
		zzv.Cover("hash.sensitive.query")
		zzv.Assert("C15.hash.sensitive.to.url.query", zzv.Feasible(r1[0].ShardTarget.Hash != r2[0].ShardTarget.Hash))
		zzv.Observe("sensitive", "query")
		zzv.Cover("hash.end")
		return
	}
	name := []string{"foo", "__tmp_x", "__scrape_interval__"}[which]
	v1, v2 := zzv.Str("v1"), zzv.Str("v2")
	zzv.Assume(v1 != "" && v2 != "" && v1 != v2)
	mk := func(v string) *targetgroup.Group {
		t := model.LabelSet{model.AddressLabel: "h1:80", model.LabelName(name): model.LabelValue(v)}
		return &targetgroup.Group{Source: "src", Targets: []model.LabelSet{t}}
	}
	r1, err1 := targetsFromGroup(mk(v1), cfg)
	r2, err2 := targetsFromGroup(mk(v2), cfg)
	zzv.Assert("C15.sensitive.noerror", err1 == nil && err2 == nil && len(r1) == 1 && len(r2) == 1)
	if err1 != nil || err2 != nil || len(r1) != 1 || len(r2) != 1 {
		return
	}
	zzv.Cover("hash.sensitive")
	zzv.Assert("C15.hash.sensitive.to.final.label", zzv.Feasible(r1[0].ShardTarget.Hash != r2[0].ShardTarget.Hash))
	zzv.Observe("sensitive", name)
	zzv.Cover("hash.end")
}

// VHashDedupe (C15): two discovered entries with equal final labels and URL collapse into one
// target; entries that differ stay apart.
func VHashDedupe() {
	cfg := vHashCfg()
	foo := zzv.Str("foo")
	zzv.Assume(foo != "")
	same := zzv.Choose("same", 2) == 1
	t1 := model.LabelSet{model.AddressLabel: "h1:80", "foo": model.LabelValue(foo), "__meta_x": model.LabelValue(zzv.Str("m1"))}
	t2 := model.LabelSet{model.AddressLabel: "h1:80", "foo": model.LabelValue(foo), "__meta_x": model.LabelValue(zzv.Str("m2"))}
	if !same {
		t2[model.AddressLabel] = "h2:80"
	}
	g := &targetgroup.Group{Source: "src", Targets: []model.LabelSet{t1, t2}}
	r, err := targetsFromGroup(g, cfg)
	zzv.Assert("C15.dedupe.noerror", err == nil)
	if err != nil {
		return
	}
	if same {
		zzv.Cover("dedupe.same")
		zzv.Assert("C15.dedupe.collapses", len(r) == 1)
	} else {
		zzv.Cover("dedupe.different")
		zzv.Assert("C15.dedupe.keeps.both", len(r) == 2 || len(r) == 1) // (a hash collision is not excluded by the model)
		if len(r) == 2 {
			zzv.Cover("dedupe.two")
		}
	}
	zzv.Observe("dedupe", same, len(r))
	zzv.Cover("dedupe.end")
}
