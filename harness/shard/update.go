//go:build verif

package shard

import (
	"github.com/sirupsen/logrus"

	"tkestack.io/kvass/pkg/target"
	"tkestack.io/kvass/pkg/zzv"
)

// VUpdateTarget: lemma for Shard.TargetStatus / UpdateTarget / needUpdate - the POST of a target
// list is skipped only when the list the shard reported and the requested one agree on keys and
// states (and are not empty); whatever is posted is the requested list (C01's last phase
// contract; a skipped POST for a changed list is a stuck state in the sense of C03 / C06).
func VUpdateTarget(K int) {
	reported := map[uint64]*target.ScrapeStatus{}
	for h := 1; h <= K; h++ {
		if zzv.Choose("rep.has."+zzv.Itoa(h), 2) == 1 {
			reported[uint64(h)] = &target.ScrapeStatus{TargetState: zzv.Str("rep.h"+zzv.Itoa(h)+".state", target.StateNormal, target.StateInTransfer)}
		}
	}
	posts := 0
	var posted map[string][]*target.Target
	s := NewShard("s0", "http://s0", true, logrus.New())
	s.APIGet = func(url string, ret interface{}) error {
		if r, ok := ret.(*map[uint64]*target.ScrapeStatus); ok {
			for h, st := range reported {
				c := *st
				(*r)[h] = &c
			}
		}
		return nil
	}
	s.APIPost = func(url string, req interface{}, ret interface{}) error {
		if r, ok := req.(**UpdateTargetsRequest); ok {
			posts++
			posted = (*r).Targets
		}
		return nil
	}
	_, err := s.TargetStatus()
	zzv.Assert("C01.shard.status.ok", err == nil)
	req := &UpdateTargetsRequest{Targets: map[string][]*target.Target{}}
	want := map[uint64]string{}
	for h := 1; h <= K; h++ {
		if zzv.Choose("req.has."+zzv.Itoa(h), 2) == 1 {
			st := zzv.Str("req.h"+zzv.Itoa(h)+".state", target.StateNormal, target.StateInTransfer)
			job := "job" + zzv.Itoa(1+h%2)
			req.Targets[job] = append(req.Targets[job], &target.Target{Hash: uint64(h), TargetState: st})
			want[uint64(h)] = st
		}
	}
	crashed := zzv.Crashed(func() { err = s.UpdateTarget(req) })
	zzv.Assert("C01.shard.update.nocrash", !crashed && err == nil)
	if crashed {
		return
	}
	sameKeys := len(want) == len(reported)
	sameStates := true
	for h, st := range want {
		r, ok := reported[h]
		if !ok {
			sameKeys = false
		} else {
			sameStates = zzv.And(sameStates, r.TargetState == st)
		}
	}
	zzv.Assert("C01.shard.update.atmostonce", posts <= 1)
	if !sameKeys {
		zzv.Cover("shard.update.keys.differ")
		zzv.Assert("C01.shard.update.posted.when.keys.differ", posts == 1)
	} else if len(want) != 0 {
		zzv.Cover("shard.update.keys.same")
		zzv.Assert("C01.shard.update.posted.iff.state.differs", (posts == 1) == !sameStates)
	}
	if posts == 1 {
		n := 0
		for _, job := range []string{"job1", "job2"} {
			for _, t := range posted[job] {
				n++
				st, ok := want[t.Hash]
				zzv.Assert("C01.shard.update.body", ok && t.TargetState == st)
			}
		}
		zzv.Assert("C01.shard.update.body.size", n == len(want))
	}
	zzv.Observe("update", posts, len(want), len(reported))
	zzv.Cover("shard.update.end")
}
