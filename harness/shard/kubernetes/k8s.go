//go:build verif

package kubernetes

import (
	"context"
	"fmt"

	"github.com/sirupsen/logrus"
	appsv1 "k8s.io/api/apps/v1"
	corev1 "k8s.io/api/core/v1"
	metav1 "k8s.io/apimachinery/pkg/apis/meta/v1"
	"k8s.io/client-go/kubernetes"
	typedapps "k8s.io/client-go/kubernetes/typed/apps/v1"
	typedcore "k8s.io/client-go/kubernetes/typed/core/v1"

	"tkestack.io/kvass/pkg/shard"
	"tkestack.io/kvass/pkg/zzv"
)

func vLogger() logrus.FieldLogger { return logrus.New() }

// ---- fake clientset: only the calls the shard manager makes are implemented ----

type vCluster struct {
	sts        *appsv1.StatefulSet // the object stored in the API server
	getFails   bool
	updFails   bool
	gets       int
	updates    []int32 // replica counts written by Update (-1: nil)
	updNames   []string
	deleted    []string
	delFailAt  int // Delete call number (1-based) that fails, 0 = never
	delNotFound bool
	pods       *corev1.PodList
	podsFail   bool
}

type vClient struct {
	kubernetes.Interface
	c *vCluster
}

func (v *vClient) AppsV1() typedapps.AppsV1Interface { return &vApps{c: v.c} }
func (v *vClient) CoreV1() typedcore.CoreV1Interface { return &vCore{c: v.c} }

type vApps struct {
	typedapps.AppsV1Interface
	c *vCluster
}

func (a *vApps) StatefulSets(ns string) typedapps.StatefulSetInterface { return &vSts{c: a.c, ns: ns} }

type vSts struct {
	typedapps.StatefulSetInterface
	c  *vCluster
	ns string
}

func (s *vSts) Get(ctx context.Context, name string, opts metav1.GetOptions) (*appsv1.StatefulSet, error) {
	s.c.gets++
	if s.c.getFails {
		return nil, zzv.Err("get statefulset failed")
	}
	cp := *s.c.sts
	if s.c.sts.Spec.Replicas != nil {
		r := *s.c.sts.Spec.Replicas
		cp.Spec.Replicas = &r
	}
	return &cp, nil
}

func (s *vSts) Update(ctx context.Context, sts *appsv1.StatefulSet, opts metav1.UpdateOptions) (*appsv1.StatefulSet, error) {
	r := int32(-1)
	if sts.Spec.Replicas != nil {
		r = *sts.Spec.Replicas
	}
	s.c.updates = append(s.c.updates, r)
	s.c.updNames = append(s.c.updNames, sts.Name)
	if s.c.updFails {
		return nil, zzv.Err("update conflict")
	}
	return sts, nil
}

type vCore struct {
	typedcore.CoreV1Interface
	c *vCluster
}

func (a *vCore) PersistentVolumeClaims(ns string) typedcore.PersistentVolumeClaimInterface {
	return &vPVC{c: a.c}
}
func (a *vCore) Pods(ns string) typedcore.PodInterface { return &vPods{c: a.c} }

type vPVC struct {
	typedcore.PersistentVolumeClaimInterface
	c *vCluster
}

var vErrDelete = zzv.Err("delete pvc failed")

func (p *vPVC) Delete(ctx context.Context, name string, opts metav1.DeleteOptions) error {
	p.c.deleted = append(p.c.deleted, name)
	if p.c.delFailAt != 0 && len(p.c.deleted) == p.c.delFailAt {
		return vErrDelete
	}
	return nil
}

type vPods struct {
	typedcore.PodInterface
	c *vCluster
}

func (p *vPods) List(ctx context.Context, opts metav1.ListOptions) (*corev1.PodList, error) {
	if p.c.podsFail {
		return nil, zzv.Err("list pods failed")
	}
	return p.c.pods, nil
}

// vIsNotFound replaces k8serr.IsNotFound under the symbolic executor.
func vIsNotFound(err error) bool { return vCurCluster != nil && vCurCluster.delNotFound }

var vCurCluster *vCluster

const vMaxReplicas = 6

// VChangeScale (C18): ChangeScale(expect) against a StatefulSet with `old` replicas and T claim
// templates.
func VChangeScale(T int) {
	old := zzv.Int32("old")
	expect := zzv.Int32("expect")
	zzv.Assume(0 <= old && old <= vMaxReplicas)
	zzv.Assume(0 <= expect && expect <= vMaxReplicas)
	sts := &appsv1.StatefulSet{}
	sts.Name = "prom"
	sts.Namespace = "ns"
	nilReplicas := zzv.Choose("replicas.nil", 2) == 1
	if !nilReplicas {
		o := old
		sts.Spec.Replicas = &o
	}
	tnames := []string{"data", "wal"}
	for t := 0; t < T; t++ {
		pvc := corev1.PersistentVolumeClaim{}
		pvc.Name = tnames[t]
		sts.Spec.VolumeClaimTemplates = append(sts.Spec.VolumeClaimTemplates, pvc)
	}
	c := &vCluster{sts: sts, getFails: zzv.Bool("get.fails"), updFails: zzv.Bool("update.fails"),
		delFailAt: zzv.Choose("delete.failAt", 3), delNotFound: zzv.Bool("delete.notfound")}
	vCurCluster = c
	deletePVC := zzv.Bool("deletePVC")
	m := newShardManager(&vClient{c: c}, sts, 8080, deletePVC, vLogger())
	var err error
	crashed := zzv.Crashed(func() { err = m.ChangeScale(expect) })
	zzv.Assert("C18.scale.nocrash", !crashed)
	if crashed {
		return
	}
	noop := c.getFails || nilReplicas || old == expect
	if noop {
		zzv.Cover("scale.noop")
		zzv.Assert("C18.scale.noop", len(c.updates) == 0 && len(c.deleted) == 0)
		zzv.Assert("C18.scale.noop.err", (err != nil) == c.getFails)
	} else {
		zzv.Cover("scale.change")
		zzv.Assert("C18.scale.update.once", len(c.updates) == 1 && c.updates[0] == expect && c.updNames[0] == "prom")
		zzv.Assert("C18.scale.err", (err != nil) == c.updFails)
	}
	// the claims deleted are exactly those of the removed ordinals
	shouldDelete := !noop && !c.updFails && deletePVC && expect < old
	total := 0
	for i := int32(0); i < vMaxReplicas; i++ {
		for t := 0; t < T; t++ {
			name := fmt.Sprintf("%s-%s-%d", tnames[t], "prom", i)
			n := 0
			for _, d := range c.deleted {
				if d == name {
					n++
				}
			}
			total += n
			want := zzv.And(shouldDelete, expect <= i, i < old)
			if n > 0 {
				zzv.Cover("scale.deleted")
			}
			zzv.Assert("C18.pvc.exact", zzv.And(zzv.Implies(want, n == 1 || (n == 0 && false)), zzv.Implies(!want, n == 0)))
			// never a claim of a remaining shard
			zzv.Assert("C18.pvc.remaining.kept", zzv.Implies(i < expect, n == 0))
		}
	}
	zzv.Assert("C18.pvc.onlyknown", total == len(c.deleted))
	zzv.Observe("scale", len(c.updates), len(c.deleted), err != nil)
	zzv.Cover("scale.end")
}

var vPerms3 = [][]int{{0, 1, 2}, {0, 2, 1}, {1, 0, 2}, {1, 2, 0}, {2, 0, 1}, {2, 1, 0}}

// VShards (C18): Shards() lists the pods of the StatefulSet in ordinal order whatever order the
// API returns them in.
func VShards(n int) {
	sts := &appsv1.StatefulSet{}
	sts.Name = "prom"
	sts.Namespace = "ns"
	sts.Spec.Selector = &metav1.LabelSelector{MatchLabels: map[string]string{"app": "prom"}}
	ips := make([]string, n)
	pods := &corev1.PodList{}
	var order []int
	if n <= 3 {
		perm := vPerms3[zzv.Choose("perm", 6)]
		for _, k := range perm {
			if k < n {
				order = append(order, k)
			}
		}
	} else {
		// many pods (ordinals with different digit counts): ordinal order, reverse order, and the
		// API server's name order
		switch zzv.Choose("order", 3) {
		case 0:
			for k := 0; k < n; k++ {
				order = append(order, k)
			}
		case 1:
			for k := n - 1; k >= 0; k-- {
				order = append(order, k)
			}
		default:
			order = append(order, 0, 1)
			for k := 10; k < n; k++ {
				order = append(order, k)
			}
			for k := 2; k < 10 && k < n; k++ {
				order = append(order, k)
			}
		}
	}
	for i := 0; i < n; i++ {
		if n <= 3 {
			ips[i] = zzv.Str("ip"+zzv.Itoa(i), "", "10.0.0."+zzv.Itoa(i+1))
		} else {
			ips[i] = "10.0.0." + zzv.Itoa(i+1)
		}
	}
	for _, k := range order {
		p := corev1.Pod{}
		p.Name = fmt.Sprintf("%s-%d", "prom", k)
		p.Status.PodIP = ips[k]
		pods.Items = append(pods.Items, p)
	}
	c := &vCluster{sts: sts, pods: pods, podsFail: zzv.Bool("pods.fail")}
	m := newShardManager(&vClient{c: c}, sts, 8080, false, vLogger())
	// the label-selector plumbing is client-go's; the list call is the observation point
	m.getPods = func(map[string]string) (*corev1.PodList, error) {
		return (&vPods{c: c}).List(context.TODO(), metav1.ListOptions{})
	}
	shards, err := m.Shards()
	if c.podsFail {
		zzv.Assert("C18.shards.err", err != nil && shards == nil)
		return
	}
	zzv.Assert("C18.shards.count", err == nil && len(shards) == n)
	for i := 0; i < n && i < len(shards); i++ {
		zzv.Assert("C18.shards.ordinal", shards[i].ID == fmt.Sprintf("%s-%d", "prom", i))
		zzv.Assert("C18.shards.ready", shards[i].Ready == (ips[i] != ""))
		zzv.Assert("C18.shards.url", shard.VURL(shards[i]) == fmt.Sprintf("http://%s:%d", ips[i], 8080))
	}
	zzv.Observe("shards", len(shards))
	zzv.Cover("shards.end")
}

// VReplicas (C18): a StatefulSet whose rolling update is in progress is not coordinated; an
// updated and ready one is.
func VReplicas() {
	list := &appsv1.StatefulSetList{}
	type cnt struct{ replicas, updated, ready int32 }
	var cs []cnt
	for i := 0; i < 2; i++ {
		p := "sts" + zzv.Itoa(i)
		s := appsv1.StatefulSet{}
		s.Name = p
		c := cnt{zzv.Int32(p + ".replicas"), zzv.Int32(p + ".updated"), zzv.Int32(p + ".ready")}
		zzv.Assume(0 <= c.replicas && c.replicas <= 8 && 0 <= c.updated && c.updated <= 8 && 0 <= c.ready && c.ready <= 8)
		s.Status.Replicas, s.Status.UpdatedReplicas, s.Status.ReadyReplicas = c.replicas, c.updated, c.ready
		list.Items = append(list.Items, s)
		cs = append(cs, c)
	}
	listFails := zzv.Bool("list.fails")
	g := NewReplicasManager(&vClient{c: &vCluster{}}, "ns", "app=prom", 8080, false, vLogger())
	g.listStatefulSets = func(ctx context.Context, opts metav1.ListOptions) (*appsv1.StatefulSetList, error) {
		if listFails {
			return nil, zzv.Err("list failed")
		}
		return list, nil
	}
	ms, err := g.Replicas()
	if listFails {
		zzv.Assert("C18.replicas.err", err != nil)
		return
	}
	zzv.Assert("C18.replicas.ok", err == nil)
	returned := map[string]bool{}
	for _, m := range ms {
		returned[m.(*shardManager).sts.Name] = true
	}
	for i, c := range cs {
		name := "sts" + zzv.Itoa(i)
		zzv.Assert("C18.replicas.rolling.skipped", zzv.Implies(c.replicas != c.updated, !returned[name]))
		zzv.Assert("C18.replicas.ready.returned", zzv.Implies(zzv.And(c.replicas == c.updated, c.ready == c.replicas), returned[name]))
	}
	zzv.Observe("replicas", len(ms))
	zzv.Cover("replicas.end")
}

// vSortSlice stands in for sort.Slice under the symbolic executor (the library version swaps
// through reflection): an insertion sort with the caller's less function, for the slice types
// this package could sort.
func vSortSlice(x interface{}, less func(i, j int) bool) {
	switch s := x.(type) {
	case []corev1.Pod:
		for i := 1; i < len(s); i++ {
			for j := i; j > 0 && less(j, j-1); j-- {
				s[j], s[j-1] = s[j-1], s[j]
			}
		}
	case []string:
		for i := 1; i < len(s); i++ {
			for j := i; j > 0 && less(j, j-1); j-- {
				s[j], s[j-1] = s[j-1], s[j]
			}
		}
	default:
		panic("vSortSlice: unsupported slice type")
	}
}
