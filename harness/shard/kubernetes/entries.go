//go:build verif

package kubernetes

var vEntries = map[string]interface{}{
	"VChangeScale": VChangeScale,
	"VShards":      VShards,
	"VReplicas":    VReplicas,
}
