//go:build verif

package shard

import (
	"testing"

	"tkestack.io/kvass/pkg/zzv"
)

func TestVReplay(t *testing.T) { zzv.RunCases(t, vEntries) }
