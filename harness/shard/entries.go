//go:build verif

package shard

var vEntries = map[string]interface{}{
	"VUpdateTarget": VUpdateTarget,
}
