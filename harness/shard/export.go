//go:build verif

package shard

// VURL exposes the unexported URL of a shard to harnesses in other packages.
func VURL(s *Shard) string { return s.url }
