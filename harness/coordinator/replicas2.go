//go:build verif

package coordinator

import (
	"time"

	"github.com/prometheus/client_golang/prometheus"
	"github.com/prometheus/prometheus/scrape"

	"tkestack.io/kvass/pkg/discovery"
	"tkestack.io/kvass/pkg/shard"
	"tkestack.io/kvass/pkg/target"
	"tkestack.io/kvass/pkg/zzv"
)

func (s *vShard) vNextCycle() {
	s.log, s.posted, s.nPosted, s.nRuntimeGet, s.extraPosted = nil, nil, 0, 0, 0
}

// VTwoReplicasCycles (C19 across cycles): two consecutive cycles of the same coordinator and the
// same explorer over [A, B] against two cycles over [A] alone. A is one in-sync shard that
// reports no targets in either cycle (whatever it was sent in the first cycle was lost, e.g. a
// restart with an empty store), so that in both cycles its target comes from the explorer's
// estimate; B is one in-sync shard that may scrape the same target with an arbitrary status.
// What A's shard is sent must be the same with and without B - in the second cycle too.
// env 16: concrete shard loads and a concrete status of B's copy (3 series, healthy); 64: relief
// and scale-down switched off.
func VTwoReplicasCycles(env int) {
	const K = 1
	opt := vOption()
	if env&64 != 0 {
		// bit 6: no relief and no scale-down (the planner paths the property does not need)
		zzv.Assume(opt.DisableAlleviate && opt.MaxIdleTime == 0)
	}
	vMargin = opt
	vBase = time.Now()
	zzv.FreezeClock()
	active := map[uint64]*discovery.SDTargets{1: {Job: "job1", ShardTarget: &target.Target{Hash: 1}}}
	getActive := func() map[uint64]*discovery.SDTargets { return active }

	type rec struct {
		posted [2]*target.Target
		n      [2]int
		scale  []int32
	}
	run := func(withB bool) rec {
		// the explorer's knowledge before the first cycle: a successful probe of target 1
		ex := &vExplorer{known: map[uint64]*target.ScrapeStatus{}}
		st := target.NewScrapeStatus(zzv.Int64("ex.series"), zzv.Int64("ex.total"))
		zzv.Assume(0 <= st.Series && st.Series <= vMaxSeries && 0 <= st.TotalSeries && st.TotalSeries <= vMaxSeries)
		st.Health = scrape.HealthGood
		ex.known[1] = st
		a := vReplica("a", 1, K, 8|env, false)
		zzv.Assume(len(a.shards[0].status) == 0)
		ms := []shard.Manager{a}
		if withB {
			b := vReplica("b", 1, K, 8|env, false)
			zzv.Assume(len(b.shards[0].status) == 1)
			ms = append(ms, b)
		}
		c := NewCoordinator(opt, &vReplicas{ms: ms}, vConfig, ex.get, getActive, prometheus.NewRegistry(), vLogger())
		var r rec
		for cyc := 0; cyc < 2; cyc++ {
			crashed := zzv.Crashed(func() { _ = c.runOnce() })
			zzv.Assert("C19.cycles.nocrash", !crashed)
			s := a.shards[0]
			r.n[cyc] = s.nPosted
			if s.posted != nil {
				r.posted[cyc] = s.posted[1]
			}
			for _, m := range ms {
				for _, sh := range m.(*vManager).shards {
					sh.vNextCycle()
				}
			}
		}
		r.scale = a.scaleCalls
		return r
	}
	r1 := run(true)
	r2 := run(false)
	zzv.Cover("tworep.cycles.ran")
	zzv.Assert("C19.cycles.scale.same", len(r1.scale) == len(r2.scale))
	for k := 0; k < len(r1.scale) && k < len(r2.scale); k++ {
		zzv.Assert("C19.cycles.scale.same", r1.scale[k] == r2.scale[k])
	}
	for cyc := 0; cyc < 2; cyc++ {
		zzv.Assert("C19.cycles.posted.same.count", r1.n[cyc] == r2.n[cyc])
		t1, t2 := r1.posted[cyc], r2.posted[cyc]
		zzv.Assert("C19.cycles.posted.same.keys", (t1 != nil) == (t2 != nil))
		if t1 != nil && t2 != nil {
			if cyc == 1 {
				zzv.Cover("tworep.cycles.second.posted")
			}
			zzv.Assert("C19.cycles.posted.same", zzv.And(t1.TargetState == t2.TargetState, t1.Series == t2.Series, t1.TotalSeries == t2.TotalSeries))
		}
	}
	zzv.Observe("tworep.cycles", r1.n[0], r1.n[1], r2.n[0], r2.n[1])
	zzv.Cover("tworep.cycles.end")
}
