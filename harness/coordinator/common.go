//go:build verif

package coordinator

import (
	"github.com/prometheus/prometheus/scrape"
	"github.com/sirupsen/logrus"

	"tkestack.io/kvass/pkg/discovery"
	"tkestack.io/kvass/pkg/shard"
	"tkestack.io/kvass/pkg/target"
	"tkestack.io/kvass/pkg/zzv"
)

const (
	vMaxSeries  = int64(1) << 40 // value bound for every series / limit input
	vMaxScrapes = uint64(1) << 16
	vHandover   = uint64(3) // README "Targets transfer": both sides must have scraped 3 times
)

func vLogger() logrus.FieldLogger { return logrus.New() }

// vOption builds symbolic, well-formed coordinator options.
func vOption() *Option {
	opt := &Option{
		MaxHeadSeries:    zzv.Int64("opt.maxHead"),
		MaxProcessSeries: zzv.Int64("opt.maxProc"),
		MaxShard:         zzv.Int32("opt.maxShard"),
		MinShard:         zzv.Int32("opt.minShard"),
		DisableAlleviate: zzv.Bool("opt.noRelief"),
	}
	opt.MaxIdleTime = zzvDuration("opt.maxIdle")
	zzv.Assume(0 <= opt.MaxHeadSeries && opt.MaxHeadSeries <= vMaxSeries)
	zzv.Assume(1 <= opt.MaxProcessSeries && opt.MaxProcessSeries <= vMaxSeries)
	zzv.Assume(0 <= opt.MinShard && opt.MinShard <= opt.MaxShard && opt.MaxShard <= 8)
	zzv.Assume(0 <= opt.MaxIdleTime && int64(opt.MaxIdleTime) <= int64(1)<<50)
	return opt
}

// vStatus builds one well-formed symbolic status entry as a sidecar can report it.
func vStatus(p string) *target.ScrapeStatus {
	st := &target.ScrapeStatus{
		Series:      zzv.Int64(p + ".series"),
		TotalSeries: zzv.Int64(p + ".total"),
		TargetState: zzv.Str(p+".state", target.StateNormal, target.StateInTransfer),
		Health:      scrape.TargetHealth(zzv.Str(p+".health", string(scrape.HealthGood), string(scrape.HealthBad), string(scrape.HealthUnknown))),
		ScrapeTimes: zzv.Uint64(p + ".scrapes"),
	}
	zzv.Assume(0 <= st.Series && st.Series <= vMaxSeries)
	zzv.Assume(0 <= st.TotalSeries && st.TotalSeries <= vMaxSeries)
	zzv.Assume(st.ScrapeTimes <= vMaxScrapes)
	return st
}

func vRuntime(p string) *shard.RuntimeInfo {
	rt := &shard.RuntimeInfo{
		HeadSeries:    zzv.Int64(p + ".head"),
		ProcessSeries: zzv.Int64(p + ".proc"),
	}
	zzv.Assume(0 <= rt.HeadSeries && rt.HeadSeries <= vMaxSeries)
	zzv.Assume(0 <= rt.ProcessSeries && rt.ProcessSeries <= vMaxSeries)
	return rt
}

// vActive: each hash 1..K is discovered or not (shape choice).
func vActive(K int) map[uint64]*discovery.SDTargets {
	active := map[uint64]*discovery.SDTargets{}
	for h := 1; h <= K; h++ {
		if zzv.Choose("active."+zzv.Itoa(h), 2) == 1 {
			active[uint64(h)] = &discovery.SDTargets{
				Job:         "job" + zzv.Itoa(1+h%2),
				ShardTarget: &target.Target{Hash: uint64(h)},
			}
		}
	}
	return active
}

// vShardInfos builds an arbitrary well-formed planner pre-state of S shards over K hashes.
// pre[i][h] keeps the reported status objects so that assertions can refer to the reports
// after the code under analysis has deleted or rewritten map entries.
func vShardInfos(S, K int, allChangeable bool) (infos []*shardInfo, pre []map[uint64]target.ScrapeStatus) {
	for i := 0; i < S; i++ {
		p := "s" + zzv.Itoa(i)
		si := newShardInfo(shard.NewShard(p, "http://"+p, true, vLogger()))
		si.changeAble = allChangeable || zzv.Choose(p+".changeable", 2) == 1
		si.runtime = vRuntime(p)
		si.scraping = map[uint64]*target.ScrapeStatus{}
		snap := map[uint64]target.ScrapeStatus{}
		for h := 1; h <= K; h++ {
			if zzv.Choose(p+".has."+zzv.Itoa(h), 2) == 1 {
				st := vStatus(p + ".h" + zzv.Itoa(h))
				si.scraping[uint64(h)] = st
				snap[uint64(h)] = *st
			}
		}
		infos = append(infos, si)
		pre = append(pre, snap)
	}
	return
}

// vSwr replaces seriesWithRate in the planner harnesses: an uninterpreted summary with the
// bounds that VLemmaSwr proves for the exact floating-point definition.
func vSwr(series int64, rate float64) int64 { return zzv.Swr(series, rate) }

// VLemmaSwr: obligations that justify the summary, decided in floating-point theory on the
// real seriesWithRate.
func VLemmaSwr(which int) {
	x := zzv.Int64("x")
	zzv.Assume(0 <= x && x <= vMaxSeries)
	switch which {
	case 0:
		zzv.Assert("lemma.swr.1.0", seriesWithRate(x, 1.0) == x && seriesWithRate(x, 1) == x)
		zzv.Assert("lemma.swr.0", seriesWithRate(x, 0) == 0)
	case 1:
		y := seriesWithRate(x, 1.8)
		zzv.Assert("lemma.swr.1.8", x <= y && y <= 2*x)
	case 2:
		y := seriesWithRate(x, 1.6)
		zzv.Assert("lemma.swr.1.6", x <= y && y <= 2*x)
	case 3:
		y := seriesWithRate(x, 1.4)
		zzv.Assert("lemma.swr.1.4", x <= y && y <= 2*x)
	case 4:
		y := seriesWithRate(x, 1.1)
		zzv.Assert("lemma.swr.1.1", x <= y && y <= 2*x)
	case 5:
		y := seriesWithRate(x, 0.2)
		zzv.Assert("lemma.swr.0.2", 0 <= y && y <= x)
	case 6:
		y := seriesWithRate(x, 0.5)
		zzv.Assert("lemma.swr.0.5", 0 <= y && y <= x)
	}
	zzv.Cover("lemma.end")
}
