//go:build verif

package coordinator

import (
	"time"

	"github.com/prometheus/client_golang/prometheus"
	"github.com/prometheus/prometheus/scrape"

	"tkestack.io/kvass/pkg/discovery"
	"tkestack.io/kvass/pkg/prom"
	"tkestack.io/kvass/pkg/shard"
	"tkestack.io/kvass/pkg/target"
	"tkestack.io/kvass/pkg/zzv"
)

const vCfgHash = "HASH-OK"

// vShard is the scripted sidecar behind one shard.Shard: symbolic reports, scripted health,
// recorded requests.
type vShard struct {
	name string
	// health script
	ready, statusOK, runtimeOK, hashEq, cfgPostOK, runtime2OK, hashEq2, postOK, extraOK bool
	// reports
	status map[uint64]*target.ScrapeStatus
	rt     shard.RuntimeInfo
	// recordings
	log         []string
	posted      map[uint64]*target.Target // body of the last target POST (by hash); nil = none
	nPosted     int
	dupInPost   bool
	cfgPushed   string
	nRuntimeGet int
	extraPosted int
	sh          *shard.Shard
}

func (s *vShard) inSync() bool {
	return s.ready && s.statusOK && s.runtimeOK && (s.hashEq || (s.cfgPostOK && s.runtime2OK && s.hashEq2))
}

// reachable: the status GET was answered, so the coordinator knows what this shard scrapes.
func (s *vShard) reachable() bool { return s.ready && s.statusOK }

func (s *vShard) get(url string, ret interface{}) error {
	switch r := ret.(type) {
	case *map[uint64]*target.ScrapeStatus:
		s.log = append(s.log, "GET status")
		if !s.statusOK {
			return zzv.Err("status GET failed")
		}
		for h, st := range s.status {
			c := *st
			(*r)[h] = &c
		}
		return nil
	case **shard.RuntimeInfo:
		s.log = append(s.log, "GET runtime")
		s.nRuntimeGet++
		ok, eq := s.runtimeOK, s.hashEq
		if s.nRuntimeGet > 1 {
			ok, eq = s.runtime2OK, s.hashEq2
		}
		if !ok {
			return zzv.Err("runtime GET failed")
		}
		c := s.rt
		if eq {
			c.ConfigHash = vCfgHash
		} else {
			// a sidecar that runs another configuration reports its hash; one that has not loaded
			// any configuration yet reports the empty string
			c.ConfigHash = zzv.Str(s.name+".otherhash", "HASH-OTHER", "")
		}
		*r = &c
		return nil
	}
	s.log = append(s.log, "GET other")
	return zzv.Err("unexpected GET")
}

func (s *vShard) post(url string, req interface{}, ret interface{}) error {
	switch r := req.(type) {
	case *shard.UpdateConfigRequest:
		s.log = append(s.log, "POST config")
		s.cfgPushed = r.RawContent
		if !s.cfgPostOK {
			return zzv.Err("config POST rejected")
		}
		return nil
	case *prom.ExtraConfig:
		s.log = append(s.log, "POST extra")
		s.extraPosted++
		if !s.extraOK {
			return zzv.Err("extra config POST failed")
		}
		return nil
	case **shard.UpdateTargetsRequest:
		s.log = append(s.log, "POST targets")
		s.nPosted++
		s.posted = map[uint64]*target.Target{}
		for _, ts := range (*r).Targets {
			for _, t := range ts {
				if s.posted[t.Hash] != nil {
					s.dupInPost = true
				}
				s.posted[t.Hash] = t
			}
		}
		if !s.postOK {
			return zzv.Err("targets POST failed")
		}
		return nil
	}
	s.log = append(s.log, "POST other")
	return zzv.Err("unexpected POST")
}

// vNewShard creates the scripted sidecar number i. full: the complete health script (C08);
// otherwise one of three kinds that the planner can distinguish: 0 not reachable, 1 reachable
// but not in sync, 2 in sync.
var vPrefix = "s" // name prefix of the shards being built (replica A: "a", replica B: "b")

func vNewShard(i, K int, full bool, env int) *vShard {
	p := vPrefix + zzv.Itoa(i)
	s := &vShard{name: p, status: map[uint64]*target.ScrapeStatus{}}
	if full {
		s.ready = zzv.Bool(p + ".ready")
		s.statusOK = zzv.Bool(p + ".statusOK")
		s.runtimeOK = zzv.Bool(p + ".runtimeOK")
		s.hashEq = zzv.Bool(p + ".hashEq")
		s.cfgPostOK = zzv.Bool(p + ".cfgPostOK")
		s.runtime2OK = zzv.Bool(p + ".runtime2OK")
		s.hashEq2 = zzv.Bool(p + ".hashEq2")
	} else {
		kind := 2
		if env&8 == 0 { // bit 3: every shard in sync (planning-only exploration at larger sizes)
			kind = zzv.Choose(p+".kind", 3)
		}
		switch kind {
		case 0:
			s.ready = zzv.Bool(p + ".ready") // unreachable either way: not ready, or the status GET fails
			s.statusOK = false
		case 1:
			s.ready, s.statusOK = true, true
			s.runtimeOK = false
		case 2:
			s.ready, s.statusOK, s.runtimeOK, s.hashEq = true, true, true, true
		}
	}
	s.postOK, s.extraOK = true, true
	if env&1 != 0 {
		s.postOK = zzv.Bool(p + ".postOK")
		s.extraOK = zzv.Bool(p + ".extraOK")
	}
	if env&16 != 0 {
		// bit 4: concrete loads (used for the "other" replica in C19's quick tier)
		s.rt = shard.RuntimeInfo{HeadSeries: 5, ProcessSeries: 7}
		if i > 0 {
			// later shards are empty, so that limits exist under which shard 0 needs relief and
			// another shard has room
			s.rt = shard.RuntimeInfo{HeadSeries: 0, ProcessSeries: 0}
		}
		for h := 1; h <= K; h++ {
			if zzv.Choose(p+".has."+zzv.Itoa(h), 2) == 1 {
				st := target.NewScrapeStatus(3, 4)
				st.Health = scrape.HealthGood
				st.ScrapeTimes = 9
				s.status[uint64(h)] = st
			}
		}
	} else {
		r := vRuntime(p)
		s.rt = *r
		for h := 1; h <= K; h++ {
			if zzv.Choose(p+".has."+zzv.Itoa(h), 2) == 1 {
				s.status[uint64(h)] = vStatus(p + ".h" + zzv.Itoa(h))
			}
		}
	}
	// a sidecar is idle exactly when it has no targets (guaranteed by C10); the instant is free
	if len(s.status) == 0 && zzv.Choose(p+".idle", 2) == 1 {
		ago := zzvDuration(p + ".idleAgo")
		zzv.Assume(0 <= ago && int64(ago) <= int64(1)<<51)
		if vMargin != nil {
			// keep the reported idle instant a second away from the expiry boundary, so that a
			// native replay (whose clock runs on) sees the same side of it
			d := ago - vMargin.MaxIdleTime
			zzv.Assume(d > time.Second || d < -time.Second)
		}
		t := vBase.Add(-ago)
		s.rt.IdleStartAt = &t
	}
	s.sh = shard.NewShard(p, "http://"+p, s.ready, vLogger())
	s.sh.APIGet = s.get
	s.sh.APIPost = s.post
	return s
}

var vBase time.Time // instant taken by the harness before the cycle starts
var vMargin *Option  // options against which idle instants keep a replay margin (nil: none)

type vManager struct {
	shards     []*vShard
	shardsErr  bool
	scaleErr1  bool // the first ChangeScale call fails
	scaleErr2  bool // the second one fails
	scaleCalls []int32
}

func (m *vManager) Shards() ([]*shard.Shard, error) {
	if m.shardsErr {
		return nil, zzv.Err("list shards failed")
	}
	out := make([]*shard.Shard, 0, len(m.shards))
	for _, s := range m.shards {
		out = append(out, s.sh)
	}
	return out, nil
}

func (m *vManager) ChangeScale(n int32) error {
	m.scaleCalls = append(m.scaleCalls, n)
	if len(m.scaleCalls) == 1 && m.scaleErr1 {
		return zzv.Err("scale failed")
	}
	if len(m.scaleCalls) == 2 && m.scaleErr2 {
		return zzv.Err("scale failed")
	}
	return nil
}

type vReplicas struct {
	ms  []shard.Manager
	err bool
}

func (r *vReplicas) Replicas() ([]shard.Manager, error) {
	if r.err {
		return nil, zzv.Err("replicas failed")
	}
	return r.ms, nil
}

// vExplorer: what the explorer knows per hash (nil, or one status object returned on every call).
type vExplorer struct{ known map[uint64]*target.ScrapeStatus }

func vNewExplorer(K int) *vExplorer {
	e := &vExplorer{known: map[uint64]*target.ScrapeStatus{}}
	for h := 1; h <= K; h++ {
		if zzv.Choose("ex.has."+zzv.Itoa(h), 2) == 1 {
			p := "ex.h" + zzv.Itoa(h)
			st := target.NewScrapeStatus(zzv.Int64(p+".series"), zzv.Int64(p+".total"))
			st.Health = scrape.TargetHealth(zzv.Str(p+".health", string(scrape.HealthGood), string(scrape.HealthBad), string(scrape.HealthUnknown)))
			zzv.Assume(0 <= st.Series && st.Series <= vMaxSeries)
			zzv.Assume(0 <= st.TotalSeries && st.TotalSeries <= vMaxSeries)
			e.known[uint64(h)] = st
		}
	}
	return e
}

func (e *vExplorer) get(h uint64) *target.ScrapeStatus { return e.known[h] }

func vConfig() *prom.ConfigInfo {
	return &prom.ConfigInfo{ConfigHash: vCfgHash, RawContent: []byte("raw-config"), ExtraConfig: &prom.ExtraConfig{}}
}

type vCycle struct {
	S, K    int
	opt     *Option
	shards  []*vShard
	snap    []map[uint64]target.ScrapeStatus // R_i as reported (copies taken before the cycle)
	active  map[uint64]*discovery.SDTargets
	ex      *vExplorer
	exSnap  map[uint64]target.ScrapeStatus
	mgr     *vManager
	crashed bool
	err     error
}

// vRunCycle builds one replica of S scripted shards over K hashes and runs the real runOnce once.
// env bit 0: target / extra-config POSTs may fail; bit 1: ChangeScale may fail.
func vRunCycle(S, K int, full bool, env int) *vCycle {
	cy := &vCycle{S: S, K: K}
	cy.opt = vOption()
	if env&32 != 0 {
		// bit 5: relief switched off (keeps two-shard whole cycles cheap enough for the quick tier)
		zzv.Assume(cy.opt.DisableAlleviate)
	}
	vMargin = cy.opt
	vBase = time.Now()
	cy.active = vActive(K)
	cy.ex = vNewExplorer(K)
	cy.exSnap = map[uint64]target.ScrapeStatus{}
	for h, st := range cy.ex.known {
		cy.exSnap[h] = *st
	}
	cy.mgr = &vManager{}
	if env&2 != 0 {
		cy.mgr.scaleErr1, cy.mgr.scaleErr2 = zzv.Bool("scaleErr1"), zzv.Bool("scaleErr2")
	}
	for i := 0; i < S; i++ {
		s := vNewShard(i, K, full, env)
		cy.shards = append(cy.shards, s)
		snap := map[uint64]target.ScrapeStatus{}
		for h, st := range s.status {
			snap[h] = *st
		}
		cy.snap = append(cy.snap, snap)
	}
	cy.mgr.shards = cy.shards
	c := NewCoordinator(cy.opt, &vReplicas{ms: []shard.Manager{cy.mgr}}, vConfig, cy.ex.get,
		func() map[uint64]*discovery.SDTargets { return cy.active }, prometheus.NewRegistry(), vLogger())
	cy.crashed = zzv.Crashed(func() { cy.err = c.runOnce() })
	return cy
}

// inList: is h in shard j's target list after the cycle?  If a target POST was issued and it
// failed, the sidecar may or may not have applied it: then h must be in both lists to count.
func (cy *vCycle) inList(j int, h uint64) bool {
	s := cy.shards[j]
	_, inR := cy.snap[j][h]
	if s.nPosted == 0 {
		return inR
	}
	_, inP := s.posted[h]
	if s.postOK {
		return inP
	}
	return inP && inR
}

// removed: h was reported by shard j and a POST without it was issued.
func (cy *vCycle) removed(j int, h uint64) bool {
	s := cy.shards[j]
	_, inR := cy.snap[j][h]
	if !inR || s.nPosted == 0 {
		return false
	}
	_, inP := s.posted[h]
	return !inP
}

// isNew: h is newly placed on shard j by this cycle.
func (cy *vCycle) isNew(j int, h uint64) bool {
	s := cy.shards[j]
	if s.nPosted == 0 {
		return false
	}
	_, inR := cy.snap[j][h]
	_, inP := s.posted[h]
	return inP && !inR
}

// VCycle: one coordination cycle over one replica; assertion sets selected by property.
func VCycle(S, K, env int) {
	full := env&4 != 0 // bit 2: full per-shard health script (C08) instead of the three planner-visible kinds
	cy := vRunCycle(S, K, full, env)
	if zzv.Prop("C01") {
		cy.assertC01()
	}
	if zzv.Prop("C08") {
		cy.assertC08()
	}
	if zzv.Prop("C04") {
		cy.assertC04()
	}
	if zzv.Prop("C05") {
		cy.assertC05()
	}
	if zzv.Prop("C07") {
		cy.assertC07()
	}
	if zzv.Prop("C03") {
		cy.assertC03()
	}
	if zzv.Prop("C06") {
		cy.assertC06()
	}
	cy.observe()
	zzv.Cover("cycle.end")
}

func (cy *vCycle) observe() {
	zzv.Observe("crashed", cy.crashed)
	for j, s := range cy.shards {
		zzv.Observe("shard", j, s.nPosted, len(s.log))
		if s.nPosted > 0 {
			for h := uint64(1); h <= uint64(cy.K); h++ {
				if t, ok := s.posted[h]; ok {
					zzv.Observe("posted", j, h, t.TargetState, t.Series)
				}
			}
		}
	}
	for _, n := range cy.mgr.scaleCalls {
		zzv.Observe("scale", n)
	}
}

func (cy *vCycle) assertC01() {
	zzv.Assert("C01.c.nocrash", !cy.crashed)
	if cy.crashed {
		return
	}
	for h := uint64(1); h <= uint64(cy.K); h++ {
		_, isActive := cy.active[h]
		reported := false
		for i, s := range cy.shards {
			if _, ok := cy.snap[i][h]; ok && s.inSync() {
				reported = true
			}
		}
		if isActive && reported {
			kept := false
			for j, s := range cy.shards {
				if s.inSync() && cy.inList(j, h) {
					kept = true
				}
			}
			zzv.Cover("c01.reported")
			zzv.Assert("C01.a.coverage", kept)
		}
		for i, s := range cy.shards {
			if s.inSync() && cy.removed(i, h) {
				zzv.Cover("c01.removed")
				other := false
				for j, o := range cy.shards {
					if _, ok := cy.snap[j][h]; ok && j != i && o.inSync() {
						other = true
					}
				}
				zzv.Assert("C01.b.justified", !isActive || other)
			}
		}
	}
	for _, s := range cy.shards {
		zzv.Assert("C01.post.nodup", !s.dupInPost)
		// what is posted is a per-shard copy: never the long-lived discovery object itself, and
		// never an object that another shard's request also carries
		for h, t := range s.posted {
			if d, ok := cy.active[h]; ok {
				zzv.Assert("C01.post.notshared.discovery", t != d.ShardTarget && d.ShardTarget.TargetState == "" && d.ShardTarget.Series == 0)
			}
			for _, o := range cy.shards {
				if o != s {
					if t2, ok := o.posted[h]; ok {
						zzv.Assert("C01.post.notshared.shards", t != t2)
					}
				}
			}
		}
	}
}

func (cy *vCycle) assertC08() {
	if cy.crashed {
		return
	}
	for j, s := range cy.shards {
		n := len(s.log)
		if !s.ready {
			zzv.Cover("c08.unready")
			zzv.Assert("C08.unready.untouched", n == 0)
			continue
		}
		if !s.statusOK {
			zzv.Cover("c08.statusfail")
			zzv.Assert("C08.statusfail.onlyget", n == 1 && s.log[0] == "GET status")
			continue
		}
		if !s.runtimeOK {
			zzv.Cover("c08.runtimefail")
			zzv.Assert("C08.runtimefail.nopost", n == 2 && s.log[0] == "GET status" && s.log[1] == "GET runtime")
			continue
		}
		if !s.hashEq {
			zzv.Cover("c08.hashdiffers")
			// first reaction to a differing hash: push the current raw configuration, then re-read
			zzv.Assert("C08.hashdiff.pushconfig", n >= 3 && s.log[2] == "POST config" && s.cfgPushed == "raw-config")
			if s.cfgPostOK {
				zzv.Assert("C08.hashdiff.reread", n >= 4 && s.log[3] == "GET runtime")
			} else {
				zzv.Assert("C08.hashdiff.rejected.stop", n == 3)
			}
		}
		if !s.inSync() {
			zzv.Cover("c08.outofsync")
			for _, l := range s.log {
				zzv.Assert("C08.outofsync.noupdate", l != "POST targets" && l != "POST extra")
			}
		} else {
			zzv.Cover("c08.insync")
		}
		_ = j
	}
	// a hash reported only by reachable-but-not-in-sync shards is not assigned a second time
	for h := uint64(1); h <= uint64(cy.K); h++ {
		heldByOutOfSync := false
		for i, s := range cy.shards {
			if _, ok := cy.snap[i][h]; ok && s.reachable() && !s.inSync() {
				heldByOutOfSync = true
			}
		}
		heldInSync := false
		for i, s := range cy.shards {
			if _, ok := cy.snap[i][h]; ok && s.inSync() {
				heldInSync = true
			}
		}
		if heldByOutOfSync && !heldInSync {
			zzv.Cover("c08.heldoutofsync")
			for j := range cy.shards {
				zzv.Assert("C08.noduplicate", !cy.isNew(j, h))
			}
		}
	}
}

// weight of hash h for a placement: the report it was taken from (minimum over reachable
// holders if several report it; the explorer's estimate if none does).
func (cy *vCycle) weight(h uint64) (series, total int64, fromShard bool) {
	first := true
	for i, s := range cy.shards {
		if st, ok := cy.snap[i][h]; ok && s.reachable() {
			if first || st.Series < series {
				series = st.Series
			}
			if first || st.TotalSeries < total {
				total = st.TotalSeries
			}
			first = false
		}
	}
	if !first {
		return series, total, true
	}
	if st, ok := cy.exSnap[h]; ok {
		return st.Series, st.TotalSeries, false
	}
	return 0, 0, false
}

func (cy *vCycle) assertC04() {
	if cy.crashed {
		return
	}
	opt := cy.opt
	headRelief := zzv.OnPath("alleviateShardHeadSeries>transferTarget")
	for j, s := range cy.shards {
		if !s.inSync() || s.nPosted == 0 {
			continue
		}
		var addSeries, addTotal int64
		placed := false
		moved := false
		for h := uint64(1); h <= uint64(cy.K); h++ {
			if cy.isNew(j, h) {
				placed = true
				se, to, fromShard := cy.weight(h)
				addSeries += se
				addTotal += to
				moved = moved || fromShard
				// a target that alone exceeds a limit is never assigned
				zzv.Finding("C04-F1", zzv.And(fromShard, opt.MaxHeadSeries != 0, headRelief))
				zzv.Assert("C04.oversized.notplaced", !zzv.Or(zzv.And(opt.MaxHeadSeries != 0, se > opt.MaxHeadSeries), to > opt.MaxProcessSeries))
			}
		}
		if placed {
			zzv.Cover("c04.placed")
			headOK := zzv.Or(opt.MaxHeadSeries == 0, s.rt.HeadSeries+addSeries < opt.MaxHeadSeries)
			procOK := s.rt.ProcessSeries+addTotal < opt.MaxProcessSeries
			// F1: head-series relief tests only the head limit of the destination
			zzv.Finding("C04-F1", zzv.And(moved, headOK, !procOK, opt.MaxHeadSeries != 0, headRelief))
			zzv.Assert("C04.fits", zzv.And(headOK, procOK))
		}
	}
	// "... and never causes a scale-up": when every discovered target that no reachable shard
	// reports is oversized (strictly exceeds a limit on its own) or not eligible at all, and
	// relief cannot ask for space, no scale request exceeds the current shard count
	onlyOversized := true
	causedByTotal := false
	for h := uint64(1); h <= uint64(cy.K); h++ {
		if _, isActive := cy.active[h]; !isActive {
			continue
		}
		held := false
		for i, s := range cy.shards {
			if _, ok := cy.snap[i][h]; ok && s.reachable() {
				held = true
			}
		}
		st, known := cy.exSnap[h]
		if held || !known {
			continue
		}
		over := zzv.Or(zzv.And(opt.MaxHeadSeries != 0, st.Series > opt.MaxHeadSeries), st.TotalSeries > opt.MaxProcessSeries)
		onlyOversized = zzv.And(onlyOversized, zzv.Or(st.Health != scrape.HealthGood, over))
		// F2: "too big" compares the kept series, not the total series, with the process limit
		causedByTotal = zzv.Or(causedByTotal, zzv.And(st.Health == scrape.HealthGood, st.TotalSeries > opt.MaxProcessSeries, st.Series <= opt.MaxProcessSeries))
	}
	reliefQuiet := opt.DisableAlleviate
	if !reliefQuiet {
		quiet := true
		for _, s := range cy.shards {
			if s.inSync() {
				quiet = zzv.And(quiet, s.rt.ProcessSeries < opt.MaxProcessSeries, zzv.Or(opt.MaxHeadSeries == 0, s.rt.HeadSeries < opt.MaxHeadSeries))
			}
		}
		reliefQuiet = quiet
	}
	limit := zzv.IfInt32(opt.MinShard > int32(cy.S), opt.MinShard, int32(cy.S))
	for _, n := range cy.mgr.scaleCalls {
		zzv.Cover("c04.scalecall")
		zzv.Finding("C04-F2", causedByTotal)
		zzv.Assert("C04.oversized.noscaleup", zzv.Implies(zzv.And(onlyOversized, reliefQuiet), n <= limit))
	}
}

func (cy *vCycle) assertC05() {
	if cy.crashed {
		return
	}
	for h := uint64(1); h <= uint64(cy.K); h++ {
		if _, isActive := cy.active[h]; !isActive {
			continue
		}
		reportedInSync := false
		for i, s := range cy.shards {
			if _, ok := cy.snap[i][h]; ok && s.inSync() {
				reportedInSync = true
			}
		}
		// (i) same-cycle marking of a move
		moved := false
		someNewNormal := false
		for j, s := range cy.shards {
			if s.inSync() && cy.isNew(j, h) {
				moved = true
				someNewNormal = zzv.Or(someNewNormal, s.posted[h].TargetState == target.StateNormal)
			}
		}
		if moved && reportedInSync {
			zzv.Cover("c05.moved")
			// the source's list after the cycle (posted, or unchanged and therefore not re-posted)
			// says in_transfer
			srcMarked := false
			for i, s := range cy.shards {
				if _, ok := cy.snap[i][h]; ok && s.inSync() {
					srcMarked = zzv.Or(srcMarked, cy.stateAfter(i, h) == "moving")
				}
			}
			zzv.Assert("C05.i.source.marked", srcMarked)
			zzv.Assert("C05.i.dest.normal", someNewNormal)
		}
		// (ii) hand-over rule on the observable: an in_transfer copy disappears only after both
		// sides have scraped three times
		for i, s := range cy.shards {
			st, ok := cy.snap[i][h]
			if !ok || !s.inSync() || !cy.removed(i, h) {
				continue
			}
			wasMoving := st.TargetState == target.StateInTransfer
			otherQualified := false
			for j, o := range cy.shards {
				if pj, ok := cy.snap[j][h]; ok && j != i && o.inSync() {
					otherQualified = zzv.Or(otherQualified, pj.ScrapeTimes >= vHandover)
				}
			}
			zzv.Cover("c05.handover")
			zzv.Finding("C05-F1", zzv.And(wasMoving, zzv.Or(st.ScrapeTimes < vHandover, !otherQualified)))
			zzv.Assert("C05.ii.handover", zzv.Implies(wasMoving, zzv.And(st.ScrapeTimes >= vHandover, otherQualified)))
		}
	}
}

func (cy *vCycle) assertC07() {
	if cy.crashed {
		return
	}
	opt := cy.opt
	S := int32(cy.S)
	end := time.Now()
	// position (1-based) of the last shard that is still in use; ambiguous: a shard's idle time
	// expires during the cycle, so that either reading of "idle for longer than max-idle-time" is
	// acceptable and the clause is not asserted
	lastUsed := int32(0)
	ambiguous := false
	for i, s := range cy.shards {
		used := !s.inSync() || len(cy.snap[i]) != 0 || (s.nPosted > 0 && len(s.posted) != 0) || s.rt.IdleStartAt == nil
		if !used {
			expiredAtStart := vBase.Sub(*s.rt.IdleStartAt) > opt.MaxIdleTime
			expiredAtEnd := end.Sub(*s.rt.IdleStartAt) > opt.MaxIdleTime
			lastUsed = zzv.IfInt32(zzv.And(!expiredAtStart, !expiredAtEnd), int32(i+1), lastUsed)
			ambiguous = zzv.Or(ambiguous, expiredAtStart != expiredAtEnd)
		} else {
			lastUsed = int32(i + 1)
		}
	}
	// "more space is needed": a discovered, healthy, fitting, non-empty target that no reachable
	// shard reports is still unplaced after the cycle
	needSpace := false
	for h := uint64(1); h <= uint64(cy.K); h++ {
		if _, isActive := cy.active[h]; !isActive {
			continue
		}
		held := false
		for i, s := range cy.shards {
			if _, ok := cy.snap[i][h]; ok && s.reachable() {
				held = true
			}
		}
		st, ok := cy.exSnap[h]
		placed := false
		for j := range cy.shards {
			if cy.isNew(j, h) {
				placed = true
			}
		}
		if held || !ok || placed {
			continue
		}
		fits := zzv.And(st.TotalSeries < opt.MaxProcessSeries, st.Series < opt.MaxProcessSeries, zzv.Or(opt.MaxHeadSeries == 0, st.Series < opt.MaxHeadSeries))
		needSpace = zzv.Or(needSpace, zzv.And(st.Health == scrape.HealthGood, fits, zzv.Or(st.Series != 0, st.TotalSeries != 0)))
	}
	pre := S <= opt.MaxShard
	early := cy.inSyncCount() < opt.MinShard
	for k, n := range cy.mgr.scaleCalls {
		zzv.Cover("c07.scalecall")
		zzv.Assert("C07.within.minmax", zzv.And(opt.MinShard <= n, n <= opt.MaxShard))
		// F2: the early ChangeScale(MinShard) fires on the in-sync count and may cut shards in use
		f2 := zzv.And(k == 0, early, n == opt.MinShard)
		// F1: an expired idle tail shard is given a target and scaled away in the same cycle
		f1 := cy.tailGotTarget(n)
		zzv.Finding("C07-F2", f2)
		zzv.Finding("C07-F1", f1)
		zzv.Assert("C07.keeps.used", zzv.Implies(zzv.And(pre, !ambiguous), n >= lastUsed))
		zzv.Finding("C07-F2", f2)
		zzv.Assert("C07.noshrink", zzv.Implies(zzv.And(pre, zzv.Or(opt.MaxIdleTime == 0, needSpace)), n >= S))
	}
}

func (cy *vCycle) inSyncCount() int32 {
	n := int32(0)
	for _, s := range cy.shards {
		if s.inSync() {
			n++
		}
	}
	return n
}

// tailGotTarget: some shard at position > n (to be removed by a request of n) reported an idle
// state and nevertheless received a non-empty target list in this cycle.
func (cy *vCycle) tailGotTarget(n int32) bool {
	r := false
	for i, s := range cy.shards {
		if s.inSync() && len(cy.snap[i]) == 0 && s.rt.IdleStartAt != nil && s.nPosted > 0 && len(s.posted) != 0 {
			r = zzv.Or(r, int32(i+1) > n)
		}
	}
	return r
}

// eligible: h is discovered, no reachable shard reports it, the explorer knows it as healthy and it
// fits into an empty shard under both limits.
func (cy *vCycle) eligibleUnscraped(h uint64) (known bool, eligible bool, nonzero bool) {
	if _, isActive := cy.active[h]; !isActive {
		return false, false, false
	}
	for i, s := range cy.shards {
		if _, ok := cy.snap[i][h]; ok && s.reachable() {
			return false, false, false
		}
	}
	st, ok := cy.exSnap[h]
	if !ok {
		return false, false, false
	}
	opt := cy.opt
	fits := zzv.And(st.TotalSeries < opt.MaxProcessSeries, st.Series < opt.MaxProcessSeries, zzv.Or(opt.MaxHeadSeries == 0, st.Series < opt.MaxHeadSeries))
	return true, zzv.And(st.Health == scrape.HealthGood, fits), zzv.Or(st.Series != 0, st.TotalSeries != 0)
}

func (cy *vCycle) assertC03() {
	if cy.crashed {
		return
	}
	opt := cy.opt
	S := int32(cy.S)
	allInSync := true
	for _, s := range cy.shards {
		if !s.inSync() {
			allInSync = false
		}
	}
	// placement: a target no shard reports is newly listed on at most one shard, in normal state
	unplaced := false
	unplacedZero := false
	for h := uint64(1); h <= uint64(cy.K); h++ {
		known, elig, nonzero := cy.eligibleUnscraped(h)
		if !known {
			continue
		}
		n := 0
		for j, s := range cy.shards {
			if cy.isNew(j, h) {
				n++
				zzv.Cover("c03.placed")
				zzv.Assert("C03.placed.normal", s.posted[h].TargetState == target.StateNormal)
				zzv.Assert("C03.placed.healthy", cy.exSnap[h].Health == scrape.HealthGood)
			}
		}
		zzv.Assert("C03.placed.atmostonce", n <= 1)
		if n == 0 {
			unplaced = zzv.Or(unplaced, elig)
			unplacedZero = zzv.Or(unplacedZero, zzv.And(elig, !nonzero))
		}
		// K = 1: no other target competes for room, so an eligible target is placed whenever some
		// in-sync shard reported room for it under both limits
		if cy.K == 1 && n == 0 {
			st := cy.exSnap[h]
			room := false
			for _, s := range cy.shards {
				if s.inSync() {
					room = zzv.Or(room, zzv.And(s.rt.ProcessSeries+st.TotalSeries < opt.MaxProcessSeries, zzv.Or(opt.MaxHeadSeries == 0, s.rt.HeadSeries+st.Series < opt.MaxHeadSeries)))
				}
			}
			zzv.Assert("C03.placed.whenroom", !zzv.And(elig, room))
		}
	}
	// scale-up clause: all shards in sync and an eligible unscraped target left unplaced => the
	// final scale request exceeds the current count (asserted while more shards are allowed)
	if allInSync && len(cy.mgr.scaleCalls) > 0 {
		zzv.Cover("c03.allinsync")
		last := cy.mgr.scaleCalls[len(cy.mgr.scaleCalls)-1]
		// F1: a target whose estimate is (0,0) adds nothing to the needed space
		zzv.Finding("C03-F1", unplacedZero)
		zzv.Assert("C03.scaleup", zzv.Implies(zzv.And(unplaced, S < opt.MaxShard), last > S))
	}
	// stability: from a converged report set nothing changes
	if allInSync && cy.S > 0 {
		conv := opt.MaxIdleTime == 0
		for h := uint64(1); h <= uint64(cy.K); h++ {
			_, isActive := cy.active[h]
			holders := 0
			for i := range cy.shards {
				if st, ok := cy.snap[i][h]; ok {
					holders++
					conv = zzv.And(conv, isActive, st.TargetState == target.StateNormal)
				}
			}
			if holders > 1 {
				conv = false
			}
			if isActive && holders == 0 {
				// an unassigned target is acceptable only if it is not eligible
				known, elig, _ := cy.eligibleUnscraped(h)
				if known {
					conv = zzv.And(conv, !elig)
				}
				st, ok := cy.exSnap[h]
				if ok {
					// ... and not one that the code would still try to place or count as needed space
					conv = zzv.And(conv, st.Health != scrape.HealthGood)
				}
			}
		}
		for _, s := range cy.shards {
			conv = zzv.And(conv, s.rt.ProcessSeries < opt.MaxProcessSeries, zzv.Or(opt.MaxHeadSeries == 0, s.rt.HeadSeries < opt.MaxHeadSeries))
		}
		same := true
		for j, s := range cy.shards {
			if s.nPosted == 0 {
				continue
			}
			for h := uint64(1); h <= uint64(cy.K); h++ {
				st, was := cy.snap[j][h]
				t, is := s.posted[h]
				if was != is {
					same = false
				} else if was {
					same = zzv.And(same, t.TargetState == st.TargetState)
				}
			}
		}
		want := zzv.IfInt32(S > opt.MaxShard, opt.MaxShard, zzv.IfInt32(S < opt.MinShard, opt.MinShard, S))
		scaleSame := true
		for _, n := range cy.mgr.scaleCalls {
			scaleSame = zzv.And(scaleSame, n == want)
		}
		zzv.Cover("c03.stability.checked")
		zzv.Assert("C03.stable.lists", zzv.Implies(conv, same))
		zzv.Assert("C03.stable.scale", zzv.Implies(zzv.And(conv, opt.MinShard <= S), scaleSame))
	}
}

// assertC06: the states faults leave behind are left again by a fault-free cycle.
func (cy *vCycle) assertC06() {
	if cy.crashed {
		return
	}
	opt := cy.opt
	for h := uint64(1); h <= uint64(cy.K); h++ {
		if _, isActive := cy.active[h]; !isActive {
			continue
		}
		var holders []int
		reachableOnly := true
		for i, s := range cy.shards {
			if _, ok := cy.snap[i][h]; ok && s.reachable() {
				holders = append(holders, i)
				if !s.inSync() {
					reachableOnly = false
				}
			}
		}
		if !reachableOnly {
			continue
		}
		// (1) a lone in_transfer copy (its partner never arrived, or was scaled away): after the
		// cycle some in-sync shard must be told to scrape the target in normal state
		if len(holders) == 1 {
			i := holders[0]
			st := cy.snap[i][h]
			normalSomewhere := false
			for j, s := range cy.shards {
				if !s.inSync() {
					continue
				}
				if s.nPosted > 0 {
					if t, ok := s.posted[h]; ok {
						normalSomewhere = zzv.Or(normalSomewhere, t.TargetState == target.StateNormal)
					}
				} else if j == i {
					normalSomewhere = zzv.Or(normalSomewhere, st.TargetState == target.StateNormal)
				}
			}
			zzv.Cover("c06.lone")
			// F2: nothing ever clears a lone in_transfer copy
			zzv.Finding("C06-F2", st.TargetState == target.StateInTransfer)
			zzv.Assert("C06.lone.transfer.cleared", zzv.Implies(st.TargetState == target.StateInTransfer, normalSomewhere))
		}
		// (2) two qualified normal copies: the cycle removes (or starts moving) one of them
		if len(holders) == 2 {
			a, b := holders[0], holders[1]
			sa, sb := cy.snap[a][h], cy.snap[b][h]
			both := zzv.And(sa.TargetState == target.StateNormal, sb.TargetState == target.StateNormal, sa.ScrapeTimes >= vHandover, sb.ScrapeTimes >= vHandover)
			// progress: afterwards the two shards do not both list a normal copy any more (one was
			// removed, or one was marked in_transfer because a move between them was started)
			progress := !zzv.And(cy.stateAfter(a, h) == "normal", cy.stateAfter(b, h) == "normal")
			ra, rb := cy.shards[a].rt, cy.shards[b].rt
			equalLoad := zzv.Or(zzv.And(opt.MaxHeadSeries != 0, ra.HeadSeries == rb.HeadSeries), zzv.And(opt.MaxHeadSeries == 0, ra.ProcessSeries == rb.ProcessSeries))
			zzv.Cover("c06.duplicate")
			// F1: duplicates on shards that report exactly equal load are never de-duplicated
			zzv.Finding("C06-F1", equalLoad)
			zzv.Assert("C06.duplicate.resolved", zzv.Implies(both, progress))
			// an in_transfer copy next to a qualified normal one is dropped in this cycle
			moving := zzv.And(sa.TargetState == target.StateInTransfer, sb.TargetState == target.StateNormal, sa.ScrapeTimes >= vHandover, sb.ScrapeTimes >= vHandover)
			zzv.Assert("C06.transfer.completes", zzv.Implies(moving, cy.stateAfter(a, h) != "moving"))
		}
	}
}

// stateAfter: "gone", "normal" or "moving" - what shard j's list says about h after the cycle
// (the posted list if a target POST was issued, else the reported one).
func (cy *vCycle) stateAfter(j int, h uint64) string {
	s := cy.shards[j]
	var st string
	if s.nPosted > 0 {
		t, ok := s.posted[h]
		if !ok {
			return "gone"
		}
		st = t.TargetState
	} else {
		r, ok := cy.snap[j][h]
		if !ok {
			return "gone"
		}
		st = r.TargetState
	}
	return zzv.IfStr(st == target.StateInTransfer, "moving", "normal")
}
