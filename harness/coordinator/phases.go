//go:build verif

package coordinator

import (
	"time"

	"github.com/prometheus/prometheus/scrape"

	"tkestack.io/kvass/pkg/target"
	"tkestack.io/kvass/pkg/zzv"
)

// placementFits asserts, for every shard, that what a planning phase added to it fits under the
// limits on top of the load the shard reported (runtime before the phase), and that the phase
// only ever adds keys to shards it may change. weightOf gives the (series, total) of a hash.
func vAssertPlacements(label string, c *Coordinator, S, K int, infos []*shardInfo, pre []map[uint64]target.ScrapeStatus,
	head0, proc0 []int64, weightOf func(h uint64) (int64, int64), relief bool) {
	opt := c.option
	for j := 0; j < S; j++ {
		var addS, addT int64
		placed := false
		for h := uint64(1); h <= uint64(K); h++ {
			_, was := pre[j][h]
			_, is := infos[j].scraping[h]
			if was && !is {
				zzv.Assert(label+".nodelete", false)
			}
			if is && !was {
				placed = true
				se, to := weightOf(h)
				addS += se
				addT += to
				zzv.Assert("C08."+label+".dest.insync", infos[j].changeAble)
				zzv.Finding("C04-F1", zzv.And(relief, opt.MaxHeadSeries != 0, zzv.OnPath("alleviateShardHeadSeries>transferTarget")))
				zzv.Assert("C04."+label+".oversized.notplaced", !zzv.Or(zzv.And(opt.MaxHeadSeries != 0, se > opt.MaxHeadSeries), to > opt.MaxProcessSeries))
			}
		}
		if placed {
			zzv.Cover(label + ".placed")
			headOK := zzv.Or(opt.MaxHeadSeries == 0, head0[j]+addS < opt.MaxHeadSeries)
			procOK := proc0[j]+addT < opt.MaxProcessSeries
			zzv.Finding("C04-F1", zzv.And(relief, opt.MaxHeadSeries != 0, headOK, !procOK, zzv.OnPath("alleviateShardHeadSeries>transferTarget")))
			zzv.Assert("C04."+label+".fits", zzv.And(headOK, procOK))
		}
	}
}

// VRelief: phase lemma for alleviateShards from an arbitrary well-formed pre-state.
// mode 1: no head-series limit (process-series relief only - which needs K >= 2 to move anything)
// and every shard in sync. mode 2: a head-series limit that no shard has reached (so that only
// process-series relief runs, but has to respect the head limit of the receiving shard), every
// shard in sync. mode 3: as mode 2 with the shape fixed - all K targets on shard 0, none elsewhere.
func VRelief(S, K, mode int) {
	c := &Coordinator{option: vOption(), log: vLogger()}
	zzv.Assume(!c.option.DisableAlleviate)
	if mode == 1 {
		zzv.Assume(c.option.MaxHeadSeries == 0)
	}
	infos, pre := vShardInfos(S, K, mode != 0)
	if mode == 3 {
		for i := range infos {
			want := 0
			if i == 0 {
				want = K
			}
			zzv.Assume(len(pre[i]) == want)
		}
	}
	if mode == 2 || mode == 3 {
		zzv.Assume(c.option.MaxHeadSeries > 0)
		for _, si := range infos {
			zzv.Assume(si.runtime.HeadSeries < c.option.MaxHeadSeries)
		}
	}
	head0, proc0 := make([]int64, S), make([]int64, S)
	for i := range infos {
		head0[i], proc0[i] = infos[i].runtime.HeadSeries, infos[i].runtime.ProcessSeries
	}
	changeable := changeAbleShardsInfo(infos)
	crashed := zzv.Crashed(func() { _ = c.alleviateShards(changeable) })
	zzv.Assert("C01.c.relief.nocrash", !crashed)
	if crashed {
		return
	}
	// a transferred target weighs what its (unique, since relief only moves normal copies that
	// exist on the source) source reported; with duplicates take the minimum over holders
	weightOf := func(h uint64) (int64, int64) {
		var se, to int64
		first := true
		for i := 0; i < S; i++ {
			if st, ok := pre[i][h]; ok {
				se = zzv.IfInt64(zzv.Or(first, st.Series < se), st.Series, se)
				to = zzv.IfInt64(zzv.Or(first, st.TotalSeries < to), st.TotalSeries, to)
				first = false
			}
		}
		return se, to
	}
	vAssertPlacements("relief", c, S, K, infos, pre, head0, proc0, weightOf, true)
	// C05.i: a moved target is marked in_transfer on a source and arrives normal
	for h := uint64(1); h <= uint64(K); h++ {
		for j := 0; j < S; j++ {
			_, was := pre[j][h]
			st, is := infos[j].scraping[h]
			if is && !was {
				zzv.Cover("relief.moved")
				zzv.Assert("C05.i.relief.dest.normal", st.TargetState == target.StateNormal)
				marked := false
				for i := 0; i < S; i++ {
					if pi, ok := pre[i][h]; ok && infos[i].changeAble {
						if cur, still := infos[i].scraping[h]; still {
							marked = zzv.Or(marked, zzv.And(pi.TargetState == target.StateNormal, cur.TargetState == target.StateInTransfer))
						}
					}
				}
				zzv.Assert("C05.i.relief.source.marked", marked)
			}
		}
	}
	zzv.Cover("relief.end")
}

// VAssign: phase lemma for assignNoScrapingTargets.
func VAssign(S, K int) {
	c := &Coordinator{option: vOption(), log: vLogger()}
	active := vActive(K)
	infos, pre := vShardInfos(S, K, false)
	head0, proc0 := make([]int64, S), make([]int64, S)
	for i := range infos {
		head0[i], proc0[i] = infos[i].runtime.HeadSeries, infos[i].runtime.ProcessSeries
	}
	global := map[uint64]*target.ScrapeStatus{}
	gsnap := map[uint64]target.ScrapeStatus{}
	for h := 1; h <= K; h++ {
		if _, ok := active[uint64(h)]; ok && zzv.Choose("g.has."+zzv.Itoa(h), 2) == 1 {
			st := vStatus("g.h" + zzv.Itoa(h))
			global[uint64(h)] = st
			gsnap[uint64(h)] = *st
		}
	}
	var need space
	crashed := zzv.Crashed(func() { need = c.assignNoScrapingTargets(infos, active, global) })
	zzv.Assert("C01.c.assign.nocrash", !crashed)
	if crashed {
		return
	}
	weightOf := func(h uint64) (int64, int64) { return gsnap[h].Series, gsnap[h].TotalSeries }
	vAssertPlacements("assign", c, S, K, infos, pre, head0, proc0, weightOf, false)
	for h := uint64(1); h <= uint64(K); h++ {
		held := false
		for i := 0; i < S; i++ {
			if _, ok := pre[i][h]; ok {
				held = true
			}
		}
		n := 0
		for j := 0; j < S; j++ {
			_, was := pre[j][h]
			if _, is := infos[j].scraping[h]; is && !was {
				n++
				zzv.Cover("assign.placed")
				// C08: a hash some shard (in sync or not) reports is not assigned a second time
				zzv.Assert("C08.assign.noduplicate", !held)
				_, isActive := active[h]
				zzv.Assert("C01.assign.onlyactive", isActive)
				g, known := gsnap[h]
				zzv.Assert("C03.assign.healthy", known && g.Health == scrape.HealthGood)
			}
		}
		zzv.Assert("C03.assign.atmostonce", n <= 1)
	}
	_ = need
	zzv.Cover("assign.end")
}

// VScaleDown: phase lemma for tryScaleDown (C07 clauses on the returned scale, C04 on transfers).
// mode 1 ("drain"): no head limit, every shard in sync, the targets all sit on the last but one
// shard in normal state and scraped long enough, the shards in front hold none (their loads are
// free), the last shard is empty and idle: the drain has to pack K targets into the front shards.
func VScaleDown(S, K, mode int) {
	c := &Coordinator{option: vOption(), log: vLogger()}
	zzv.Assume(c.option.MaxIdleTime != 0)
	base := time.Now()
	infos, pre := vShardInfos(S, K, mode == 1)
	if mode == 1 {
		zzv.Assume(c.option.MaxHeadSeries == 0)
		for i := range infos {
			want := 0
			if i == S-2 {
				want = K
			}
			zzv.Assume(len(pre[i]) == want)
		}
		for _, st := range infos[S-2].scraping {
			zzv.Assume(st.TargetState == target.StateNormal && st.ScrapeTimes >= 3)
		}
	}
	head0, proc0 := make([]int64, S), make([]int64, S)
	for i := range infos {
		head0[i], proc0[i] = infos[i].runtime.HeadSeries, infos[i].runtime.ProcessSeries
		if len(pre[i]) == 0 && (mode != 1 || i == S-1) && zzv.Choose("s"+zzv.Itoa(i)+".idle", 2) == 1 {
			ago := zzvDuration("s" + zzv.Itoa(i) + ".idleAgo")
			zzv.Assume(0 <= ago && int64(ago) <= int64(1)<<51)
			t := base.Add(-ago)
			infos[i].runtime.IdleStartAt = &t
		}
	}
	var scale int32
	crashed := zzv.Crashed(func() { scale = c.tryScaleDown(infos) })
	end := time.Now()
	zzv.Assert("C01.c.scaledown.nocrash", !crashed)
	if crashed {
		return
	}
	weightOf := func(h uint64) (int64, int64) {
		var se, to int64
		first := true
		for i := 0; i < S; i++ {
			if st, ok := pre[i][h]; ok {
				se = zzv.IfInt64(zzv.Or(first, st.Series < se), st.Series, se)
				to = zzv.IfInt64(zzv.Or(first, st.TotalSeries < to), st.TotalSeries, to)
				first = false
			}
		}
		return se, to
	}
	vAssertPlacements("scaledown", c, S, K, infos, pre, head0, proc0, weightOf, false)
	lastUsed := int32(0)
	ambiguous := false
	for i := 0; i < S; i++ {
		used := !infos[i].changeAble || len(pre[i]) != 0 || len(infos[i].scraping) != 0 || infos[i].runtime.IdleStartAt == nil
		if used {
			lastUsed = int32(i + 1)
		} else {
			e0 := base.Sub(*infos[i].runtime.IdleStartAt) > c.option.MaxIdleTime
			e1 := end.Sub(*infos[i].runtime.IdleStartAt) > c.option.MaxIdleTime
			lastUsed = zzv.IfInt32(zzv.And(!e0, !e1), int32(i+1), lastUsed)
			ambiguous = zzv.Or(ambiguous, e0 != e1)
		}
	}
	zzv.Cover("scaledown.end")
	zzv.Assert("C07.scaledown.keeps.used", zzv.Implies(!ambiguous, scale >= lastUsed))
	zzv.Assert("C07.scaledown.atmost", scale <= int32(S))
	// C05.i for scale-down transfers
	for h := uint64(1); h <= uint64(K); h++ {
		for j := 0; j < S; j++ {
			_, was := pre[j][h]
			st, is := infos[j].scraping[h]
			if is && !was {
				zzv.Cover("scaledown.moved")
				marked := false
				for i := 0; i < S; i++ {
					if _, ok := pre[i][h]; ok {
						if cur, still := infos[i].scraping[h]; still {
							marked = zzv.Or(marked, cur.TargetState == target.StateInTransfer)
						}
					}
				}
				zzv.Assert("C05.i.scaledown.source.marked", marked)
				_ = st
			}
		}
	}
}

// VTransfer: lemma for transferTarget, the single place where a placement made by relief or
// scale-down is added to the destination's running load ("the load that shard reported plus
// everything placed on it during the cycle"): after moving h from one shard to another the
// destination's planning load is its previous load plus the moved target's series / total series,
// the source copy is marked in_transfer and the destination copy is an equal-valued normal copy.
func VTransfer() {
	infos, _ := vShardInfos(2, 1, true)
	from, to := infos[0], infos[1]
	st, ok := from.scraping[1]
	if !ok {
		return
	}
	zzv.Assume(st.TargetState == target.StateNormal)
	before := *st
	head0, proc0 := to.runtime.HeadSeries, to.runtime.ProcessSeries
	_, had := to.scraping[1]
	crashed := zzv.Crashed(func() { transferTarget(from, to, 1) })
	zzv.Assert("C01.c.transfer.nocrash", !crashed)
	if crashed {
		return
	}
	zzv.Cover("transfer.done")
	zzv.Assert("C04.transfer.accounting", zzv.And(to.runtime.HeadSeries == head0+before.Series, to.runtime.ProcessSeries == proc0+before.TotalSeries))
	src, still := from.scraping[1]
	dst, now := to.scraping[1]
	zzv.Assert("C05.i.transfer.marks", still && now && src.TargetState == target.StateInTransfer && dst.TargetState == target.StateNormal)
	zzv.Assert("C05.i.transfer.copy", now && zzv.And(dst.Series == before.Series, dst.TotalSeries == before.TotalSeries, dst.Health == before.Health, dst.ScrapeTimes == before.ScrapeTimes) && dst != src)
	_ = had
}
