//go:build verif

package coordinator

import (
	"github.com/prometheus/client_golang/prometheus"

	"tkestack.io/kvass/pkg/discovery"
	"tkestack.io/kvass/pkg/explore"
	"tkestack.io/kvass/pkg/scrape"
	"tkestack.io/kvass/pkg/shard"
	"tkestack.io/kvass/pkg/target"
	"tkestack.io/kvass/pkg/zzv"
)

// VCycleExplore (C20, last clause): the counts of the successful probe become the estimate used
// for the first assignment. One in-sync shard with room, one discovered target, the real
// Explore.Get as the coordinator's estimate source. Cycle 1 asks for the estimate (which queues
// the probe); the probe fails or succeeds; cycle 2 must leave the target unassigned after a
// failed probe and post it with the probe's counts after a successful one.
func VCycleExplore() {
	var probeRes *scrape.StatisticsSeriesResult
	var probeErr error
	e := explore.VScripted(func() (*scrape.StatisticsSeriesResult, error) { return probeRes, probeErr })
	sd := &discovery.SDTargets{Job: "job1", ShardTarget: &target.Target{Hash: 1}}
	e.UpdateTargets(map[string][]*discovery.SDTargets{"job1": {sd}})
	active := map[uint64]*discovery.SDTargets{1: sd}

	opt := &Option{MaxHeadSeries: 0, MaxProcessSeries: 1 << 20, MaxShard: 4, MinShard: 1}
	vPrefix = "s"
	mk := func() *vManager {
		s := &vShard{name: "s0", ready: true, statusOK: true, runtimeOK: true, hashEq: true, postOK: true, extraOK: true,
			status: map[uint64]*target.ScrapeStatus{}}
		s.rt = shard.RuntimeInfo{HeadSeries: 10, ProcessSeries: 10}
		s.sh = shard.NewShard("s0", "http://s0", true, vLogger())
		s.sh.APIGet = s.get
		s.sh.APIPost = s.post
		return &vManager{shards: []*vShard{s}}
	}
	cycle := func() *vManager {
		m := mk()
		c := NewCoordinator(opt, &vReplicas{ms: []shard.Manager{m}}, vConfig, e.Get,
			func() map[uint64]*discovery.SDTargets { return active }, prometheus.NewRegistry(), vLogger())
		crashed := zzv.Crashed(func() { _ = c.runOnce() })
		zzv.Assert("C20.cycle.nocrash", !crashed)
		return m
	}
	m1 := cycle()
	_, posted1 := m1.shards[0].posted[1]
	zzv.Assert("C20.cycle.unprobed.unassigned", !posted1)

	fails := zzv.Choose("probe.fails", 2) == 1
	scraped, total := zzv.Int64("probe.scraped"), zzv.Int64("probe.total")
	zzv.Assume(0 <= scraped && scraped <= total && total < 1<<18)
	if fails {
		probeErr = zzv.Err("connection refused")
	} else {
		probeRes = scrape.NewStatisticsSeriesResult()
		probeRes.ScrapedTotal = float64(scraped)
		probeRes.Total = float64(total)
	}
	zzv.Assert("C20.cycle.probe.queued", explore.VProbeNext(e))
	zzv.Assert("C20.cycle.probe.once", !explore.VProbeNext(e))

	m2 := cycle()
	t, posted2 := m2.shards[0].posted[1]
	if fails {
		zzv.Cover("explorecycle.failed")
		zzv.Assert("C20.cycle.failedprobe.unassigned", !posted2)
	} else {
		zzv.Cover("explorecycle.ok")
		zzv.Assert("C20.cycle.okprobe.assigned", posted2)
		if posted2 {
			zzv.Assert("C20.cycle.okprobe.estimate", t.Series == scraped)
		}
	}
	zzv.Observe("explorecycle", fails, posted1, posted2)
	zzv.Cover("explorecycle.end")
}
