//go:build verif

package coordinator

// vEntries is the registry used by the native replay / co-simulation test.
var vEntries = map[string]interface{}{
	"VGC":    VGC,
	"VCycle": VCycle,
	"VRelief": VRelief,
	"VAssign": VAssign,
	"VScaleDown": VScaleDown,
	"VLemmaSwr": VLemmaSwr,
	"VTwoReplicasCycles": VTwoReplicasCycles,
	"VTwoReplicas": VTwoReplicas,
	"VTransfer": VTransfer,
	"VCycleExplore": VCycleExplore,
	"VLoop": VLoop,
}
