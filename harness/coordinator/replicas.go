//go:build verif

package coordinator

import (
	"time"

	"github.com/prometheus/client_golang/prometheus"

	"tkestack.io/kvass/pkg/discovery"
	"tkestack.io/kvass/pkg/shard"
	"tkestack.io/kvass/pkg/target"
	"tkestack.io/kvass/pkg/zzv"
)

// vReplica builds one replica (a vManager over n scripted shards) from named inputs; building it
// twice with the same prefix yields equal-valued, independent objects.
func vReplica(prefix string, n, K, env int, mayFail bool) *vManager {
	vPrefix = prefix
	m := &vManager{}
	for i := 0; i < n; i++ {
		m.shards = append(m.shards, vNewShard(i, K, false, env))
	}
	if mayFail {
		// how the replica fails: 0 not at all, 1 listing its shards, 2 its first scale request, 3 its second
		switch zzv.Choose(prefix+".fails", 4) {
		case 1:
			m.shardsErr = true
		case 2:
			m.scaleErr1 = true
		case 3:
			m.scaleErr2 = true
		}
	}
	vPrefix = "s"
	return m
}

func vExplorerCopy(K int) *vExplorer { return vNewExplorer(K) }

// VTwoReplicas (C19): the requests replica B receives in a cycle over [A, B] equal those of a
// cycle over [B] alone, whatever A looks like and however A fails. K = 1 so that B's outcome does
// not depend on iteration order. nA: shards of A (1 or 2), nB: shards of B; envA: environment
// bits of replica A (16 = concrete loads).
func VTwoReplicas(nA, nB, envA, envB int) {
	const K = 1
	opt := vOption()
	if envB&32 != 0 {
		zzv.Assume(opt.DisableAlleviate)
	}
	vMargin = opt
	vBase = time.Now()
	// both cycles are compared at the same instant: the clock is frozen, and idle instants are
	// kept a second away from the expiry boundary so that a native replay agrees
	zzv.FreezeClock()
	active := vActive(K)
	getActive := func() map[uint64]*discovery.SDTargets { return active }

	run := func(withA bool) *vManager {
		ex := vExplorerCopy(K) // the explorer's knowledge as it was before the cycle
		var ms []shard.Manager
		if withA {
			ms = append(ms, vReplica("a", nA, K, envA, true))
		}
		b := vReplica("b", nB, K, envB, false)
		ms = append(ms, b)
		c := NewCoordinator(opt, &vReplicas{ms: ms}, vConfig, ex.get, getActive, prometheus.NewRegistry(), vLogger())
		crashed := zzv.Crashed(func() { _ = c.runOnce() })
		zzv.Assert("C19.nocrash", !crashed)
		return b
	}
	b1 := run(true)
	b2 := run(false)
	zzv.Cover("tworep.ran")
	zzv.Assert("C19.scale.samecount", len(b1.scaleCalls) == len(b2.scaleCalls))
	for k := 0; k < len(b1.scaleCalls) && k < len(b2.scaleCalls); k++ {
		zzv.Assert("C19.scale.same", b1.scaleCalls[k] == b2.scaleCalls[k])
	}
	for i := range b1.shards {
		s1, s2 := b1.shards[i], b2.shards[i]
		zzv.Assert("C19.log.same", len(s1.log) == len(s2.log) && s1.nPosted == s2.nPosted && s1.extraPosted == s2.extraPosted)
		for k := 0; k < len(s1.log) && k < len(s2.log); k++ {
			zzv.Assert("C19.log.same.entry", s1.log[k] == s2.log[k])
		}
		for h := uint64(1); h <= K; h++ {
			t1, ok1 := s1.posted[h]
			t2, ok2 := s2.posted[h]
			zzv.Assert("C19.posted.same.keys", ok1 == ok2)
			if ok1 && ok2 {
				zzv.Cover("tworep.posted")
				zzv.Assert("C19.posted.same", zzv.And(t1.TargetState == t2.TargetState, t1.Series == t2.Series))
			}
		}
		// B is coordinated at all: an in-sync shard of B got its cycle (its reports were fetched)
		if s1.ready {
			zzv.Assert("C19.b.coordinated", len(s1.log) > 0)
		}
	}
	var _ target.Target
	zzv.Observe("tworep", len(b1.scaleCalls), len(b2.scaleCalls))
	zzv.Cover("tworep.end")
}
