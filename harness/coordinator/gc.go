//go:build verif

package coordinator

import (
	"time"

	"tkestack.io/kvass/pkg/target"
	"tkestack.io/kvass/pkg/zzv"
)

func zzvDuration(name string) time.Duration { return time.Duration(zzv.Int64(name)) }

// VGC is the phase lemma for gcTargets from an arbitrary well-formed pre-state of S in-sync
// shards over K hashes (C01 removal/coverage clauses, C05 hand-over rule).
func VGC(S, K int) {
	c := &Coordinator{option: vOption(), log: vLogger()}
	active := vActive(K)
	infos, pre := vShardInfos(S, K, true)

	crashed := zzv.Crashed(func() { c.gcTargets(infos, active) })
	zzv.Assert("C01.c.gc.nocrash", !crashed)

	for h := uint64(1); h <= uint64(K); h++ {
		_, isActive := active[h]
		holdersPre, holdersPost := 0, 0
		for i := 0; i < S; i++ {
			_, was := pre[i][h]
			_, is := infos[i].scraping[h]
			if was {
				holdersPre++
			}
			if is {
				holdersPost++
				zzv.Assert("C01.gc.noinvent", was)
			}
			if was && !is {
				zzv.Cover("gc.removed")
				// justified removal: not discovered, or another in-sync shard reports it
				other := false
				otherQualified := false
				for j := 0; j < S; j++ {
					if pj, ok := pre[j][h]; ok && j != i {
						other = true
						if pj.ScrapeTimes >= vHandover {
							otherQualified = true
						}
					}
				}
				zzv.Assert("C01.b.gc.justified", !isActive || other)
				if isActive && pre[i][h].TargetState == target.StateInTransfer {
					zzv.Cover("gc.handover")
					zzv.Finding("C05-F1", pre[i][h].ScrapeTimes < vHandover || !otherQualified)
					zzv.Assert("C05.ii.gc.handover", pre[i][h].ScrapeTimes >= vHandover && otherQualified)
				}
				if !isActive {
					zzv.Cover("gc.rule1")
				}
			}
		}
		if isActive && holdersPre > 0 {
			zzv.Assert("C01.a.gc.coverage", holdersPost > 0)
		}
		// progress (C06): a completed hand-over is collected and qualified duplicates shrink, wherever
		// in the shard list the copies sit
		if isActive {
			for i := 0; i < S; i++ {
				pi, was := pre[i][h]
				if !was || pi.ScrapeTimes < vHandover {
					continue
				}
				for j := 0; j < S; j++ {
					pj, other := pre[j][h]
					if j == i || !other || pj.ScrapeTimes < vHandover {
						continue
					}
					_, still := infos[i].scraping[h]
					if pi.TargetState == target.StateInTransfer && pj.TargetState == target.StateNormal {
						zzv.Cover("gc.progress.handover")
						zzv.Assert("C06.gc.completed.handover.collected", !still)
					}
				}
			}
			qualified := 0
			sameState := true
			var st0 string
			for i := 0; i < S; i++ {
				if pi, was := pre[i][h]; was {
					if pi.ScrapeTimes < vHandover {
						sameState = false
					}
					if qualified == 0 {
						st0 = pi.TargetState
					} else if pi.TargetState != st0 {
						sameState = false
					}
					qualified++
				}
			}
			if qualified >= 2 && sameState {
				zzv.Cover("gc.progress.duplicates")
				zzv.Assert("C06.gc.duplicates.reduced", holdersPost < holdersPre)
			}
		}
	}
	zzv.Cover("end")
}
