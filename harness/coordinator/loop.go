//go:build verif

package coordinator

import (
	"time"

	"github.com/prometheus/client_golang/prometheus"
	pscrape "github.com/prometheus/prometheus/scrape"

	"tkestack.io/kvass/pkg/discovery"
	kscrape "tkestack.io/kvass/pkg/scrape"
	"tkestack.io/kvass/pkg/shard"
	"tkestack.io/kvass/pkg/sidecar"
	"tkestack.io/kvass/pkg/target"
	"tkestack.io/kvass/pkg/zzv"
)

// ---- closed loop: the real coordinator against real sidecar bookkeeping over several cycles ----

type vLoopShard struct {
	name string
	dir  string
	sc   *sidecar.VSidecar
	sh   *shard.Shard
	// fault script: the shard is not ready in this cycle / the next target POST is lost
	notReady bool
	dropPost bool
}

func (l *vLoopShard) get(url string, ret interface{}) error {
	switch r := ret.(type) {
	case *map[uint64]*target.ScrapeStatus:
		// what a JSON round trip preserves: the exported fields
		for h, st := range l.sc.Status() {
			(*r)[h] = &target.ScrapeStatus{LastError: st.LastError, Health: st.Health, Series: st.Series, TotalSeries: st.TotalSeries,
				TargetState: st.TargetState, ScrapeTimes: st.ScrapeTimes}
		}
		return nil
	case **shard.RuntimeInfo:
		rt := l.sc.Runtime()
		c := *rt
		c.ConfigHash = vCfgHash
		if rt.IdleStartAt != nil {
			t := *rt.IdleStartAt
			c.IdleStartAt = &t
		}
		*r = &c
		return nil
	}
	return zzv.Err("unexpected GET")
}

func (l *vLoopShard) post(url string, req interface{}, ret interface{}) error {
	if r, ok := req.(**shard.UpdateTargetsRequest); ok {
		if l.dropPost {
			l.dropPost = false
			return zzv.Err("connection refused")
		}
		cp := &shard.UpdateTargetsRequest{Targets: map[string][]*target.Target{}}
		for job, ts := range (*r).Targets {
			for _, t := range ts {
				c := *t
				cp.Targets[job] = append(cp.Targets[job], &c)
			}
		}
		return l.sc.Update(cp)
	}
	return nil // config / extra-config pushes are accepted
}

type vLoopManager struct {
	shards []*vLoopShard
	made   int
	calls  []int32
	base   string // fresh directory holding the sidecars' stores
}

func (m *vLoopManager) add() *vLoopShard {
	name := "s" + zzv.Itoa(m.made)
	m.made++
	if m.base == "" {
		m.base = zzv.TempDir()
	}
	l := &vLoopShard{name: name, dir: m.base + "/store-" + name}
	l.sc = sidecar.VNewSidecar(l.dir)
	m.shards = append(m.shards, l)
	return l
}

func (m *vLoopManager) Shards() ([]*shard.Shard, error) {
	var out []*shard.Shard
	for _, l := range m.shards {
		sh := shard.NewShard(l.name, "http://"+l.name, !l.notReady, vLogger())
		sh.APIGet, sh.APIPost = l.get, l.post
		l.sh = sh
		out = append(out, sh)
	}
	return out, nil
}

func (m *vLoopManager) ChangeScale(n int32) error {
	m.calls = append(m.calls, n)
	for int32(len(m.shards)) < n {
		m.add()
	}
	if int32(len(m.shards)) > n {
		m.shards = m.shards[:n] // the StatefulSet removes the tail
	}
	return nil
}

// scrape performs d scrapes of every target assigned to the shard, the way Proxy.ServeHTTP
// records them (C13): counter, health, window.
func (l *vLoopShard) scrape(d int, size func(h uint64) (int64, int64)) {
	status := l.sc.Status()
	for h := uint64(1); h <= vLoopK; h++ { // (no map ranging in the harness: it would fork on order)
		st, ok := status[h]
		if !ok {
			continue
		}
		for i := 0; i < d; i++ {
			se, to := size(h)
			rs := kscrape.NewStatisticsSeriesResult()
			rs.ScrapedTotal, rs.Total = float64(se), float64(to)
			st.ScrapeTimes++
			st.SetScrapeErr(time.Now(), nil)
			st.UpdateScrapeResult(rs)
		}
	}
}

var vLoopK uint64

// converged: every target is on exactly one shard in normal state, nothing in transfer.
func (m *vLoopManager) converged(K int) bool {
	for h := uint64(1); h <= uint64(K); h++ {
		n := 0
		for _, l := range m.shards {
			if st, ok := l.sc.Status()[h]; ok {
				n++
				if st.TargetState != target.StateNormal {
					return false
				}
			}
		}
		if n != 1 {
			return false
		}
	}
	return true
}

// vLoopCycle runs one coordination cycle; the engine merges equal states when it returns.
func vLoopCycle(c *Coordinator) bool { return zzv.Crashed(func() { _ = c.runOnce() }) }

// VLoop (C03 / C06, multi-cycle layer): S sidecars, K targets of concrete sizes that all fit, an
// arbitrary consistent initial placement (each target absent / normal / in_transfer on each
// shard), optionally one or two faults at chosen cycles, then fault-free cycles with 3
// scrapes of every assigned target between cycles. Within H cycles the placement must be
// converged, and one further cycle must change nothing. fault: low bits = number of injected
// faults (0, 1 or 2); bit 4 (16) = fixed spread initial placement (used for K = 2).
func VLoop(S, K, H, fault int) {
	vLoopK = uint64(K)
	sizes := []int64{100, 40, 70}
	limitHead, limitProc := int64(0), int64(1000)
	if zzv.Choose("headlimit", 2) == 1 {
		limitHead = 500
	}
	opt := &Option{MaxHeadSeries: limitHead, MaxProcessSeries: limitProc, MaxShard: 3, MinShard: 1}
	if zzv.Choose("idle", 2) == 1 {
		opt.MaxIdleTime = time.Hour // shards idle for more than an hour are removed
	}
	// The coordinator reads the real clock (frozen under the executor); the sidecars' clock is set
	// by the harness and runs from (H+1)*2h before that instant in steps of 2h, so that a shard
	// that became idle in an earlier cycle has been idle for more than an hour.
	base := time.Now()
	zzv.FreezeClock()
	sidecar.VSetNow(base.Add(-time.Duration(H+1) * 2 * time.Hour))
	m := &vLoopManager{}
	size := func(h uint64) (int64, int64) { return sizes[h-1], sizes[h-1] }
	active := map[uint64]*discovery.SDTargets{}
	for h := 1; h <= K; h++ {
		active[uint64(h)] = &discovery.SDTargets{Job: "job" + zzv.Itoa(h), ShardTarget: &target.Target{Hash: uint64(h)}}
	}
	// initial placement through the sidecars' own update path
	for i := 0; i < S; i++ {
		l := m.add()
		req := &shard.UpdateTargetsRequest{Targets: map[string][]*target.Target{}}
		for h := 1; h <= K; h++ {
			pick := 0
			if fault&16 != 0 {
				// fixed "spread" placement: target h sits in normal state on shard (h-1) mod S
				if (h-1)%S == i {
					pick = 1
				}
			} else {
				pick = zzv.Choose(l.name+".init.h"+zzv.Itoa(h), 3)
			}
			switch pick {
			case 1:
				req.Targets["job"+zzv.Itoa(h)] = []*target.Target{{Hash: uint64(h), Series: sizes[h-1], TotalSeries: sizes[h-1]}}
			case 2:
				req.Targets["job"+zzv.Itoa(h)] = []*target.Target{{Hash: uint64(h), Series: sizes[h-1], TotalSeries: sizes[h-1], TargetState: target.StateInTransfer}}
			}
		}
		_ = l.sc.Update(req)
		if zzv.Choose(l.name+".init.scraped", 2) == 1 {
			l.scrape(3, size)
		}
		// an overloaded shard: its Prometheus reports far more head series than the limit
		if limitHead != 0 && i == 0 && fault&16 == 0 && zzv.Choose(l.name+".overloaded", 2) == 1 {
			l.sc.Head = 2 * limitHead
			zzv.Cover("loop.overloaded")
		}
	}
	explorer := func(h uint64) *target.ScrapeStatus {
		st := target.NewScrapeStatus(sizes[h-1], sizes[h-1])
		st.Health = pscrape.HealthGood
		return st
	}
	c := NewCoordinator(opt, &vReplicas{ms: []shard.Manager{m}}, vConfig, explorer,
		func() map[uint64]*discovery.SDTargets { return active }, prometheus.NewRegistry(), vLogger())

	// fault schedule: the first fault at cycle 0 or 1, a second one (fault&15 == 2) one or two
	// cycles later
	faultAt, fault2At := -1, -1
	if fault&15 > 0 {
		faultAt = zzv.Choose("fault.cycle", 2)
	}
	if fault&15 > 1 {
		fault2At = faultAt + 1 + zzv.Choose("fault2.gap", 2)
	}
	lastFault := faultAt
	if fault2At > lastFault {
		lastFault = fault2At
	}
	inject := func(tag string) {
		victim := m.shards[zzv.Choose(tag+".shard", len(m.shards))]
		switch zzv.Choose(tag+".kind", 3) {
		case 0:
			victim.dropPost = true
		case 1:
			victim.notReady = true
		case 2:
			// the sidecar process restarts: a fresh manager on the same store
			victim.sc = sidecar.VNewSidecar(victim.dir)
		}
		zzv.Cover("loop.fault")
	}
	convergedAt := -1
	for n := 0; n < H; n++ {
		if n == faultAt && len(m.shards) > 0 {
			inject("fault")
		}
		if n == fault2At && len(m.shards) > 0 {
			inject("fault2")
			zzv.Cover("loop.fault.second")
		}
		crashed := vLoopCycle(c)
		zzv.Assert("C01.c.loop.nocrash", !crashed)
		if crashed {
			return
		}
		for _, l := range m.shards {
			l.notReady = false
			l.scrape(3, size)
		}
		// the sidecars' clock moves on between cycles
		sidecar.VSetNow(base.Add(-time.Duration(H-n) * 2 * time.Hour))
		if n > lastFault && m.converged(K) && convergedAt < 0 {
			convergedAt = n
		}
	}
	zzv.Cover("loop.ran")
	zzv.Assert("C03.loop.converges", convergedAt >= 0)
	if convergedAt < 0 {
		return
	}
	// one more cycle from the converged state changes nothing
	before := map[string]int{}
	for _, l := range m.shards {
		before[l.name] = len(l.sc.Status())
	}
	nShards := len(m.shards)
	_ = vLoopCycle(c)
	zzv.Assert("C03.loop.stable", m.converged(K) && len(m.shards) == nShards)
	for _, l := range m.shards {
		zzv.Assert("C03.loop.stable.lists", before[l.name] == len(l.sc.Status()))
	}
	zzv.Observe("loop", convergedAt, len(m.shards))
	zzv.Cover("loop.end")
}
