//go:build verif

package explore

import (
	"context"
	"time"

	"github.com/prometheus/client_golang/prometheus"
	"github.com/prometheus/prometheus/config"
	pscrape "github.com/prometheus/prometheus/scrape"
	"github.com/sirupsen/logrus"

	"tkestack.io/kvass/pkg/discovery"
	"tkestack.io/kvass/pkg/scrape"
	"tkestack.io/kvass/pkg/target"
	"tkestack.io/kvass/pkg/zzv"
)

func vSDAddr(job string, h uint64) *discovery.SDTargets {
	return &discovery.SDTargets{Job: job, ShardTarget: target.VAddrTarget(h, "h"+zzv.Itoa(int(h))+":80")}
}

// VExploreRun (C20, bounded thread model): the real Explore.Run with W probe workers, the retry
// goroutines it starts, and a driver goroutine that looks targets up and applies one concurrent
// discovery update or reload, under every schedule (switches at synchronisation operations,
// preemption bound P). F bounds the number of failing probes. Q > 0 shrinks the work queue to Q
// slots (the real one has 10000), so that lookups and retries meet a full queue.
func VExploreRun(K, W, F, P, Q int) {
	zzv.Threads(P)
	job := &scrape.JobInfo{Config: &config.ScrapeConfig{JobName: "job1"}}
	e := New(scrape.VManagerWith("job1", job), prometheus.NewRegistry(), vLogger())
	if Q > 0 {
		e.needExplore = make(chan *exploringTarget, Q)
	}
	inflight := map[string]int{}
	done := map[string]bool{}
	lastFail := map[string]int64{}
	nprobe := map[string]int{}
	failures, calls := 0, 0
	e.explore = func(log logrus.FieldLogger, info *scrape.JobInfo, url string) (*scrape.StatisticsSeriesResult, error) {
		calls++
		nprobe[url]++
		inflight[url]++
		zzv.AssertSym("C20.run.one.in.flight", inflight[url] == 1)
		zzv.AssertSym("C20.run.no.probe.after.success", !done[url])
		if t0, failed := lastFail[url]; failed {
			zzv.Cover("run.retry")
			zzv.AssertSym("C20.run.retry.after.interval", zzv.TimeNs(time.Now())-t0 >= int64(e.retryInterval))
		}
		zzv.Yield() // a probe takes time: the other goroutines may run meanwhile
		inflight[url]--
		if failures < F && zzv.Choose("probe.fail."+zzv.Itoa(calls), 2) == 1 {
			failures++
			lastFail[url] = zzv.TimeNs(time.Now())
			return nil, zzv.Err("connection refused")
		}
		done[url] = true
		r := scrape.NewStatisticsSeriesResult()
		r.ScrapedTotal = 7
		r.Total = 9
		return r, nil
	}
	upd := map[string][]*discovery.SDTargets{}
	for h := 1; h <= K; h++ {
		upd["job1"] = append(upd["job1"], vSDAddr("job1", uint64(h)))
	}
	e.UpdateTargets(upd)
	ctx, cancel := context.WithCancel(context.Background())
	runDone := false
	go func() {
		_ = e.Run(ctx, W)
		runDone = true
	}()
	for h := 1; h <= K; h++ {
		zzv.AssertSym("C20.run.get.known", e.Get(uint64(h)) != nil)
	}
	gone := map[int]bool{}
	switch zzv.Choose("driver.act", 4) {
	case 0:
		zzv.Cover("run.act.none")
	case 1:
		// the same targets are discovered again (fresh objects, as every discovery round delivers)
		again := map[string][]*discovery.SDTargets{}
		for h := 1; h <= K; h++ {
			again["job1"] = append(again["job1"], vSDAddr("job1", uint64(h)))
		}
		e.UpdateTargets(again)
		zzv.Cover("run.act.update.same")
	case 2:
		less := map[string][]*discovery.SDTargets{}
		for h := 2; h <= K; h++ {
			less["job1"] = append(less["job1"], vSDAddr("job1", uint64(h)))
		}
		e.UpdateTargets(less)
		gone[1] = true
		zzv.Cover("run.act.update.less")
	case 3:
		_ = e.ApplyConfig(vCfg("job1"))
		zzv.Cover("run.act.reload.keep")
	}
	zzv.Quiesce()
	// nothing can move any more: every retry timer has fired, the queue is drained
	zzv.AssertSym("C20.run.queue.drained", len(e.needExplore) == 0)
	for h := 1; h <= K; h++ {
		url := "http://h" + zzv.Itoa(h) + ":80"
		zzv.AssertSym("C20.run.probe.count", nprobe[url] <= F+1)
		if gone[h] {
			zzv.AssertSym("C20.run.gone.untracked", e.Get(uint64(h)) == nil)
			continue
		}
		// what the coordinator is given for this target
		st := e.Get(uint64(h))
		zzv.AssertSym("C20.run.estimate.eventually", st != nil && done[url] && st.Health == pscrape.HealthGood && st.Series == 7)
	}
	cancel()
	zzv.Quiesce()
	zzv.AssertSym("C20.run.stops.on.cancel", runDone)
	zzv.Cover("run.end")
}
