//go:build verif

package explore

var vEntries = map[string]interface{}{
	"VExploreKernel": VExploreKernel,
	"VExploreTable":  VExploreTable,
	"VExploreRun":    VExploreRun,
}
