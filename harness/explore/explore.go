//go:build verif

package explore

import (
	"context"

	"github.com/prometheus/client_golang/prometheus"
	"github.com/prometheus/prometheus/config"
	pscrape "github.com/prometheus/prometheus/scrape"
	"github.com/sirupsen/logrus"

	"tkestack.io/kvass/pkg/discovery"
	"tkestack.io/kvass/pkg/prom"
	"tkestack.io/kvass/pkg/scrape"
	"tkestack.io/kvass/pkg/target"
	"tkestack.io/kvass/pkg/zzv"
)

func vLogger() logrus.FieldLogger { return logrus.New() }

func vSD(job string, h uint64) *discovery.SDTargets {
	return &discovery.SDTargets{Job: job, ShardTarget: &target.Target{Hash: h}}
}

func vCfg(jobs ...string) *prom.ConfigInfo {
	c := &config.Config{}
	for _, j := range jobs {
		c.ScrapeConfigs = append(c.ScrapeConfigs, &config.ScrapeConfig{JobName: j})
	}
	return &prom.ConfigInfo{Config: c}
}

// VExploreKernel (C20, sequential kernel): Get / exploreOnce on a table of K targets with a
// scripted probe.
func VExploreKernel(K int) {
	var probeResult *scrape.StatisticsSeriesResult
	var probeErr error
	probes := 0
	job := &scrape.JobInfo{Config: &config.ScrapeConfig{JobName: "job1"}}
	jobKnown := zzv.Choose("job.known", 2) == 1
	var mgr *scrape.Manager
	if jobKnown {
		mgr = scrape.VManagerWith("job1", job)
	} else {
		mgr = scrape.VManagerWith("job1", nil)
	}
	e := New(mgr, prometheus.NewRegistry(), vLogger())
	e.explore = func(log logrus.FieldLogger, info *scrape.JobInfo, url string) (*scrape.StatisticsSeriesResult, error) {
		probes++
		return probeResult, probeErr
	}
	upd := map[string][]*discovery.SDTargets{}
	for h := 1; h <= K; h++ {
		upd["job1"] = append(upd["job1"], vSD("job1", uint64(h)))
	}
	e.UpdateTargets(upd)

	// unknown hash
	zzv.Assert("C20.get.unknown", e.Get(99) == nil && len(e.needExplore) == 0)
	// first Get of a known hash enqueues it exactly once
	st := e.Get(1)
	zzv.Assert("C20.get.first", st != nil && len(e.needExplore) == 1)
	st2 := e.Get(1)
	zzv.Assert("C20.get.again", st2 == st && len(e.needExplore) == 1)
	if K > 1 {
		_ = e.Get(2)
		zzv.Assert("C20.get.second.target", len(e.needExplore) == 2)
	}
	zzv.Assert("C20.before.probe", st.Health == pscrape.HealthUnknown && st.Series == 0)

	// one probe
	tar := <-e.needExplore
	zzv.Assert("C20.queue.order", tar != nil && tar.target.Hash == 1)
	// 0: success; 1: the request fails (no result); 2: the body breaks off after some samples were
	// counted: the probe function hands back the partial counts together with the error
	mode := zzv.Choose("probe.fails", 3)
	fails := mode != 0
	scraped, total := zzv.Int64("probe.scraped"), zzv.Int64("probe.total")
	zzv.Assume(0 <= scraped && scraped <= total && total < 1<<30)
	if mode == 1 {
		probeErr = zzv.Err("connection refused")
	} else if mode == 2 {
		zzv.Assume(total >= 1)
		probeErr = zzv.Err("unexpected EOF")
		probeResult = scrape.NewStatisticsSeriesResult()
		probeResult.ScrapedTotal = float64(scraped)
		probeResult.Total = float64(total)
		zzv.Cover("explore.failed.partial")
	} else {
		probeResult = scrape.NewStatisticsSeriesResult()
		probeResult.ScrapedTotal = float64(scraped)
		probeResult.Total = float64(total)
	}
	var err error
	crashed := zzv.Crashed(func() { err = e.exploreOnce(context.TODO(), tar) })
	zzv.Assert("C20.probe.nocrash", !crashed)
	if crashed {
		return
	}
	got := e.Get(1)
	zzv.Assert("C20.probe.noenqueue", len(e.needExplore) == K-1 || (K > 1 && len(e.needExplore) == 1))
	if fails || !jobKnown {
		zzv.Cover("explore.failed")
		zzv.Assert("C20.fail.err", err != nil)
		zzv.Assert("C20.fail.estimate.untouched", got.Series == 0 && got.TotalSeries == 0 && tar.target.Series == 0 && tar.target.TotalSeries == 0)
		// F1: defer t.rt.SetScrapeErr(time.Now(), err) evaluates err when the defer statement runs (nil)
		zzv.Finding("C20-F1", got.Health == pscrape.HealthGood)
		zzv.Assert("C20.fail.nothealthy", got.Health != pscrape.HealthGood)
		if jobKnown {
			zzv.Assert("C20.fail.probed.once", probes == 1)
		}
	} else {
		zzv.Cover("explore.ok")
		zzv.Assert("C20.ok.err", err == nil && probes == 1)
		zzv.Assert("C20.ok.estimate", got.Series == scraped && got.TotalSeries == total && tar.target.Series == scraped && tar.target.TotalSeries == total)
		zzv.Assert("C20.ok.healthy", got.Health == pscrape.HealthGood)
	}
	zzv.Observe("explore", fails, jobKnown, err != nil, string(got.Health), got.Series, got.TotalSeries)
	zzv.Cover("explore.end")
}

// VExploreTable (C17 explorer clause): the table tracks exactly the targets of the latest update,
// is pruned on reload, and entries of surviving hashes stay the same objects.
func VExploreTable(K int) {
	e := New(scrape.VManagerWith("job1", nil), prometheus.NewRegistry(), vLogger())
	jobs := []string{"job1", "job2"}
	mk := func(name string) (map[string][]*discovery.SDTargets, map[uint64]string) {
		u := map[string][]*discovery.SDTargets{}
		in := map[uint64]string{}
		for h := 1; h <= K; h++ {
			if zzv.Choose(name+".has."+zzv.Itoa(h), 2) == 1 {
				j := jobs[zzv.Choose(name+".job."+zzv.Itoa(h), 2)]
				u[j] = append(u[j], vSD(j, uint64(h)))
				in[uint64(h)] = j
			}
		}
		return u, in
	}
	u1, in1 := mk("u1")
	e.UpdateTargets(u1)
	first := map[uint64]*target.ScrapeStatus{}
	firstEntry := map[uint64]*exploringTarget{}
	for h := range in1 {
		first[h] = e.Get(h)
		firstEntry[h] = e.targets[h]
	}
	queued := len(e.needExplore)
	zzv.Assert("C17.explore.first.tracked", queued == len(in1))
	step := zzv.Choose("step", 2)
	want := map[uint64]string{}
	if step == 0 {
		u2, in2 := mk("u2")
		e.UpdateTargets(u2)
		want = in2
		zzv.Cover("explore.update")
	} else {
		keep := jobs[zzv.Choose("reload.keep", 2)]
		_ = e.ApplyConfig(vCfg(keep))
		for h, j := range in1 {
			if j == keep {
				want[h] = j
			}
		}
		zzv.Cover("explore.reload")
	}
	for h := uint64(1); h <= uint64(K); h++ {
		st := e.Get(h)
		_, wanted := want[h]
		zzv.Assert("C17.explore.keys", (st != nil) == wanted)
		if old, was := first[h]; was && wanted {
			zzv.Cover("explore.survivor")
			zzv.Assert("C17.explore.survivor.sameobject", st == old)
			// the probe workers and the retry timer hold the entry object itself: a surviving hash
			// must keep it (its in-flight flag and queue membership travel with it)
			zzv.Assert("C20.table.survivor.sameentry", e.targets[h] == firstEntry[h])
		}
	}
	zzv.Observe("table", len(want))
	zzv.Cover("table.end")
}

// VScripted builds an explorer whose probe is the given function (harnesses of other packages
// cannot set the unexported probe field), and VProbeNext runs one queued probe.
func VScripted(probe func() (*scrape.StatisticsSeriesResult, error)) *Explore {
	job := &scrape.JobInfo{Config: &config.ScrapeConfig{JobName: "job1"}}
	e := New(scrape.VManagerWith("job1", job), prometheus.NewRegistry(), vLogger())
	e.explore = func(log logrus.FieldLogger, info *scrape.JobInfo, url string) (*scrape.StatisticsSeriesResult, error) {
		return probe()
	}
	return e
}

// VProbeNext takes the next queued target and probes it once; false if nothing was queued.
func VProbeNext(e *Explore) bool {
	if len(e.needExplore) == 0 {
		return false
	}
	tar := <-e.needExplore
	_ = e.exploreOnce(context.TODO(), tar)
	return true
}
