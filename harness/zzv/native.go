package zzv

import (
	"encoding/json"
	"fmt"
	"os"
	"reflect"
	"sort"
	"strings"
	"testing"
)

// NativeCase is one replay / co-simulation case for the natively compiled harness.
type NativeCase struct {
	ID     string                 `json:"id"`
	Entry  string                 `json:"entry"`
	Args   []int                  `json:"args"`
	Inputs map[string]interface{} `json:"inputs"`
	Known  []string               `json:"known"`
	Props  []string               `json:"props"`
	Want   string                 `json:"want,omitempty"`   // replay: assertion label that must fail
	Expect [][]string             `json:"expect,omitempty"` // co-simulation: admissible traces
	Reps   int                    `json:"reps"`
}

type NativeResult struct {
	ID         string   `json:"id"`
	Reproduced bool     `json:"reproduced"`
	Runs       int      `json:"runs"`
	Failed     []string `json:"failed,omitempty"`
	Mismatch   []string `json:"mismatch,omitempty"` // first trace outside the admissible set
	Distinct   int      `json:"distinct_traces"`
	Skipped    int      `json:"assume_failed"`
	Panic      string   `json:"panic,omitempty"`
	LastTrace  []string `json:"last_trace,omitempty"`
}

var props = map[string]bool{}

// Prop reports whether the assertions of property id are enabled in this run.
func Prop(id string) bool { return len(props) == 0 || props[id] }

func runOne(fn reflect.Value, args []reflect.Value) (assumeFailed bool, pan string) {
	defer func() {
		if r := recover(); r != nil {
			if _, ok := r.(AssumeFailed); ok {
				assumeFailed = true
				return
			}
			pan = fmt.Sprint(r)
		}
	}()
	fn.Call(args)
	return
}

// RunCases executes the cases in $VERIF_CASES against the natively compiled harness entries and
// writes results to $VERIF_OUT.
func RunCases(t *testing.T, entries map[string]interface{}) {
	path := os.Getenv("VERIF_CASES")
	if path == "" {
		t.Skip("VERIF_CASES not set")
	}
	b, err := os.ReadFile(path)
	if err != nil {
		t.Fatal(err)
	}
	var cases []NativeCase
	if err := json.Unmarshal(b, &cases); err != nil {
		t.Fatal(err)
	}
	var results []NativeResult
	for _, c := range cases {
		res := NativeResult{ID: c.ID}
		e, ok := entries[c.Entry]
		if !ok {
			res.Panic = "no such entry " + c.Entry
			results = append(results, res)
			continue
		}
		fn := reflect.ValueOf(e)
		var args []reflect.Value
		for _, a := range c.Args {
			args = append(args, reflect.ValueOf(a))
		}
		admissible := map[string]bool{}
		for _, tr := range c.Expect {
			admissible[strings.Join(tr, "\n")] = true
		}
		seen := map[string]bool{}
		props = map[string]bool{}
		for _, p := range c.Props {
			props[p] = true
		}
		reps := c.Reps
		if reps <= 0 {
			reps = 1
		}
		for i := 0; i < reps; i++ {
			Begin(&Case{Inputs: c.Inputs, Known: c.Known})
			af, pan := runOne(fn, args)
			res.Runs++
			if af {
				res.Skipped++
				continue
			}
			if pan != "" {
				res.Panic = pan
				if c.Want == "no-uncaught-crash" {
					res.Reproduced = true
				}
				break
			}
			res.LastTrace = append([]string(nil), Trace...)
			if c.Want != "" {
				for _, f := range Failed {
					if f == c.Want {
						res.Reproduced = true
					}
				}
				if res.Reproduced {
					res.Failed = Failed
					break
				}
			}
			if c.Expect != nil {
				key := strings.Join(Trace, "\n")
				seen[key] = true
				if !admissible[key] {
					res.Mismatch = append([]string(nil), Trace...)
					break
				}
				if len(c.Expect) == 1 {
					break
				}
				if len(seen) == len(admissible) {
					break
				}
			}
		}
		res.Distinct = len(seen)
		results = append(results, res)
	}
	cleanTemp()
	sort.SliceStable(results, func(i, j int) bool { return results[i].ID < results[j].ID })
	out, _ := json.MarshalIndent(results, "", " ")
	if p := os.Getenv("VERIF_OUT"); p != "" {
		if err := os.WriteFile(p, out, 0644); err != nil {
			t.Fatal(err)
		}
	}
}
