// Package zzv is the harness runtime. The symbolic executor (/verif/engine) intercepts every
// exported function here by name; the bodies below are the *native* semantics used when a
// harness is compiled with the ordinary Go toolchain for counterexample replay and
// co-simulation: inputs and choices come from a JSON case file.
package zzv

import (
	"encoding/json"
	"fmt"
	"math/rand"
	"os"
	"os/signal"
	"strconv"
	"syscall"
	"time"
)

// Case is one concrete run: values for the named symbolic inputs.
type Case struct {
	Harness string                 `json:"harness"`
	Inputs  map[string]interface{} `json:"inputs"`
	Known   []string               `json:"known"`
}

type AssumeFailed struct{ What string }

var (
	Cur      *Case
	Failed   []string // labels of assertions that failed (and matched no known finding) in this run
	Trace    []string
	pending  []bool
	Covered  = map[string]bool{}
	Rng      = rand.New(rand.NewSource(1))
	knownSet = map[string]bool{}
)

// LoadCase reads a case file.
func LoadCase(path string) (*Case, error) {
	b, err := os.ReadFile(path)
	if err != nil {
		return nil, err
	}
	c := &Case{}
	if err := json.Unmarshal(b, c); err != nil {
		return nil, err
	}
	return c, nil
}

// Begin resets the per-run recordings.
func Begin(c *Case) {
	cleanTemp()
	Cur = c
	Failed = nil
	Trace = nil
	pending = nil
	knownSet = map[string]bool{}
	for _, k := range c.Known {
		knownSet[k] = true
	}
}

func num(name string) int64 {
	v, ok := Cur.Inputs[name]
	if !ok {
		return 0
	}
	switch x := v.(type) {
	case float64:
		return int64(x)
	case string:
		if i, err := strconv.ParseInt(x, 10, 64); err == nil {
			return i
		}
		u, _ := strconv.ParseUint(x, 10, 64)
		return int64(u)
	case bool:
		if x {
			return 1
		}
	}
	return 0
}

func Int64(name string) int64   { return num(name) }
func Uint64(name string) uint64 { return uint64(num(name)) }
func Int(name string) int       { return int(num(name)) }
func Int32(name string) int32   { return int32(num(name)) }
func Byte(name string) byte     { return byte(num(name)) }
func Bool(name string) bool {
	v, ok := Cur.Inputs[name]
	if !ok {
		return false
	}
	b, _ := v.(bool)
	return b
}

// Str is a symbolic string drawn from pool (if given).
func Str(name string, pool ...string) string {
	v, ok := Cur.Inputs[name]
	if !ok {
		if len(pool) > 0 {
			return pool[0]
		}
		return ""
	}
	s, _ := v.(string)
	return s
}

// Time is a symbolic instant (nanoseconds since the epoch, 0 <= t < 2^61).
func Time(name string) time.Time { return time.Unix(0, num(name)) }

// TimeNs is the instant as nanoseconds.
func TimeNs(t time.Time) int64 { return t.UnixNano() }

// Choose is a concrete n-way fork.
func Choose(name string, n int) int {
	if v, ok := Cur.Inputs["choose."+name]; ok {
		if f, ok := v.(float64); ok {
			return int(f)
		}
	}
	return 0
}

func Assume(b bool) {
	if !b {
		panic(AssumeFailed{"assumption violated by replay inputs"})
	}
}

// Finding registers the predicate of a known finding for the next Assert.
func Finding(id string, pred bool) {
	if knownSet[id] {
		pending = append(pending, pred)
	}
}

func Assert(label string, b bool) {
	known := false
	for _, p := range pending {
		known = known || p
	}
	pending = nil
	if !b && !known {
		Failed = append(Failed, label)
	}
}

func Cover(label string) { Covered[label] = true }

func Observe(label string, vals ...interface{}) {
	s := label
	for _, v := range vals {
		switch x := v.(type) {
		case string:
			s += " " + strconv.Quote(x)
		case nil:
			s += " \"<nil>\""
		default:
			s += " " + fmt.Sprint(x)
		}
	}
	Trace = append(Trace, s)
}

// Crashed runs f and reports whether it panicked.
func Crashed(f func()) (crashed bool) {
	defer func() {
		if r := recover(); r != nil {
			if af, ok := r.(AssumeFailed); ok {
				panic(af)
			}
			crashed = true
		}
	}()
	f()
	return false
}

// OnPath is only meaningful symbolically (executed call edges); natively it is false.
func OnPath(edge string) bool { return false }

func Itoa(i int) string { return strconv.Itoa(i) }

type vErr struct{ msg string }

func (e *vErr) Error() string { return e.msg }

// Err is a fresh non-nil error.
func Err(msg string) error { return &vErr{msg} }

// Symbolic reports whether the harness runs under the symbolic executor.
func Symbolic() bool { return false }

// Known reports whether a finding id is listed as known (not fixed).
func Known(id string) bool { return knownSet[id] }

// SameObject reports pointer identity of two pointers boxed in interfaces.
func SameObject(a, b interface{}) bool { return a == b }

// Swr is the summary of the coordinator's seriesWithRate; natively it is the definition.
func Swr(series int64, rate float64) int64 { return int64(float64(series) * rate) }

// Branch-free boolean helpers: arguments are evaluated eagerly, so harness assertions written
// with them do not fork the symbolic execution.
func Implies(a, b bool) bool { return !a || b }
func And(bs ...bool) bool {
	for _, b := range bs {
		if !b {
			return false
		}
	}
	return true
}
func Or(bs ...bool) bool {
	for _, b := range bs {
		if b {
			return true
		}
	}
	return false
}
func IfInt64(c bool, a, b int64) int64 {
	if c {
		return a
	}
	return b
}
func IfInt32(c bool, a, b int32) int32 {
	if c {
		return a
	}
	return b
}

// ---- store fault injection (C09) ----
//
// Symbolically, FSFaultNext(path, mode) makes the next WriteFile (to path, or to any file if path
// is "*") behave as: 0 success, 1 error before the file is touched, 2 error after a proper prefix
// was written (disk full), 3 process killed before the file is touched, 4 process killed part-way
// through the write, 5 process killed when all but the last byte were written.
// Natively the same store states are produced without knowing how the code writes its store:
// for modes 2 and 4 the process file-size limit (RLIMIT_FSIZE) is lowered to a few bytes while
// the update runs, so that whatever file it writes breaks off part-way; for modes 1 and 3 the
// update is skipped (FSSkip), which leaves the store untouched. A killed process and a failed
// write leave the same files behind; only the store state matters to the restart that follows.

var fsMode int
var fsOldLimit syscall.Rlimit

func FSFaultNext(path string, mode int) {
	fsMode = mode
	if mode == 5 {
		// FSFaultSize told us how long the document is that the update is going to write
		signal.Ignore(syscall.SIGXFSZ)
		_ = syscall.Getrlimit(syscall.RLIMIT_FSIZE, &fsOldLimit)
		lim := fsOldLimit
		lim.Cur = uint64(fsSize - 1)
		_ = syscall.Setrlimit(syscall.RLIMIT_FSIZE, &lim)
	}
	if mode == 2 || mode == 4 {
		off := int(num("fault.offset"))
		if off < 0 {
			off = -off
		}
		signal.Ignore(syscall.SIGXFSZ)
		_ = syscall.Getrlimit(syscall.RLIMIT_FSIZE, &fsOldLimit)
		lim := fsOldLimit
		lim.Cur = uint64(off % 24)
		_ = syscall.Setrlimit(syscall.RLIMIT_FSIZE, &lim)
	}
}

// FSSkip: natively, the interrupted update is not started at all for the "file untouched" faults.
func FSSkip() bool { return fsMode == 1 || fsMode == 3 }

// FSFaultEnd ends the fault window.
func FSFaultEnd() {
	if fsMode == 2 || fsMode == 4 || fsMode == 5 {
		_ = syscall.Setrlimit(syscall.RLIMIT_FSIZE, &fsOldLimit)
	}
	fsMode = 0
}

// FSEmulate is kept for harnesses that emulate faults by editing files (unused natively now).
func FSEmulate(path string, offset int) {}

// FaultCrashes reports whether a fault mode kills the process.
func FaultCrashes(mode int) bool { return mode == 3 || mode == 4 || mode == 5 }

var fsSize int

// FSFaultSize (native only): the length of the document the interrupted update writes, measured
// by the harness in a dry run on a copy of the store directory.
func FSFaultSize(n int) { fsSize = n }

// TempDir is a fresh store directory.
func TempDir() string {
	d, err := os.MkdirTemp("", "kvass-verif-store-")
	if err != nil {
		panic(err)
	}
	tempDirs = append(tempDirs, d)
	return d
}

var tempDirs []string

func cleanTemp() {
	for _, d := range tempDirs {
		os.RemoveAll(d)
	}
	tempDirs = nil
}

func FSExists(path string) bool {
	_, err := os.Stat(path)
	return err == nil
}

func IfUint64(c bool, a, b uint64) uint64 {
	if c {
		return a
	}
	return b
}

func IfFloat(c bool, a, b float64) float64 {
	if c {
		return a
	}
	return b
}

// FreezeClock makes every later time.Now() of the code under analysis return the same instant
// (symbolically). Natively the clock cannot be stopped; harnesses that freeze it keep their
// time-dependent inputs far from the decision boundaries.
func FreezeClock() {}

func IfStr(c bool, a, b string) string {
	if c {
		return a
	}
	return b
}

// LockCount is the number of sync.Mutex / RWMutex lock acquisitions executed so far
// (symbolically; natively it is not tracked and is 0 - assertions using it hold trivially only
// if written as differences that are compared under Symbolic()).
func LockCount() int { return lockCount }

var lockCount int

// AssertSym is an assertion over observations only the symbolic executor has (for example the
// number of lock acquisitions). Natively it does nothing; a counterexample is confirmed by
// re-executing the real code concretely inside the executor.
func AssertSym(label string, b bool) {}

// Threads / Quiesce / Yield / Preemptions belong to the engine's bounded thread model. Harnesses
// that use them assert with AssertSym only and are never executed natively (a native run cannot
// be steered through a chosen schedule); the native versions exist so that the package compiles.
func Threads(preemptionBound int) {}
func Quiesce()                    { time.Sleep(50 * time.Millisecond) }
func Yield()                      {}
func Preemptions() int            { return 0 }

// Feasible: under the symbolic executor, whether the condition CAN hold on the current path (a
// satisfiability query; used where a property is a possibility, e.g. "the hash can tell these two
// apart" with the hash functions uninterpreted). Natively it is the condition itself.
func Feasible(b bool) bool { return b }
