#!/bin/bash
# usage: MUTS="a b" mutscratch.sh   like seedscratch.sh for /verif/mutants: applies each patch to a scratch
# worktree of /repo, records whether the 92 baseline tests still pass there, runs the quick checks
# listed in checks.txt against it. Results: /verif/mutants/<name>/detection.txt
[ -z "$MUTS" ] && MUTS=$(ls /verif/mutants)
mkdir -p /tmp/out/mut
for s in $MUTS; do
  d=/verif/mutants/$s; w=/tmp/wm-$s
  git -C /repo worktree remove --force $w 2>/dev/null
  git -C /repo worktree add -q --detach $w HEAD && (cd $w && git apply $d/patch.diff) || { echo "$s: patch does not apply" | tee $d/detection.txt; git -C /repo worktree remove --force $w 2>/dev/null; continue; }
  # the baseline verdict of a mutant is re-used when it was established before (BASELINE=1 forces a rerun)
  b=$(grep -m1 "^baseline:" $d/detection.txt 2>/dev/null | sed 's/^baseline: //')
  if [ -z "$b" ] || [ -n "$BASELINE" ]; then b=$(python3 /verif/baseline_check.py $w | head -1); fi
  echo "baseline: $b" > $d/detection.txt
  for p in $(cat $d/checks.txt); do
    VERIF_REPO=$w VERIF_EVIDENCE_DIR=/tmp/out/mut /verif/check $p quick > /tmp/out/mut/$s.$p.log 2>&1; rc=$?
    lab=$(grep -m2 "^  assertion" /tmp/out/mut/$s.$p.log | sed 's/^  assertion \([^ ]*\) fails in \([^;]*\);.*/\1 (\2)/' | tr '\n' ';')
    echo "$p quick exit=$rc $lab" >> $d/detection.txt
  done
  git -C /repo worktree remove --force $w || rm -rf $w
  echo "== $s"; cat $d/detection.txt
done
echo MUTDONE
