#!/bin/bash
# usage: seedreverify.sh [seed ...]  re-confirms stored seeds against the CURRENT /repo HEAD in a
# fresh scratch worktree: demo passes without the patch, fails with it, baseline unchanged with it.
export GOFLAGS=-mod=mod GOPROXY=off GOSUMDB=off GOTOOLCHAIN=local
seeds="$@"; [ -z "$seeds" ] && seeds=$(ls /verif/seeded)
for name in $seeds; do
  d=/verif/seeded/$name; sv=/tmp/sv-$name
  git -C /repo worktree remove --force $sv 2>/dev/null
  git -C /repo worktree add -q --detach $sv HEAD || exit 2
  cp -r $d/demo/. $sv/ 2>/dev/null
  cmd=$(sed "s#DIR#$sv#g; s#/tmp/mut-C[0-9]*#$sv#g" $d/demo_cmd.txt)
  for f in $sv/*.json; do [ -f "$f" ] && sed -i "s#/tmp/mut-C[0-9]*#$sv#g" $f; done
  (cd $sv && eval "$cmd" > $sv/.demo0.log 2>&1); r0=$?
  (cd $sv && git apply $d/patch.diff) || { echo "RESULT $name: PATCH DOES NOT APPLY"; continue; }
  (cd $sv && eval "$cmd" > $sv/.demo1.log 2>&1); r1=$?
  (cd $sv && git ls-files --others --exclude-standard | grep '_test.go$' | xargs -r rm -f)
  python3 /verif/baseline_check.py $sv > $sv/.base.log 2>&1; rb=$?
  echo "RESULT $name: demo-without=$r0 (want 0) demo-with=$r1 (want !=0) baseline=$rb (want 0) at $(git -C /repo rev-parse --short HEAD)"
  git -C /repo worktree remove --force $sv
done
